"""C17 -- ground-truth lookup picks the nearest frame within tolerance; interpolation is exact.

One case = one time line of real FrameGroundTruth / DynamicObject objects + a list of (query time,
tolerance) pairs.  Every query is run through get_now_frame, get_interpolated_now_frame and
manager.get_ground_truth_now_frame (both modes); the Coq model (Model/Lookup.v) has to reproduce every
result (chosen frame by index, interpolated frame: stamp, source frame, uuid list and order, copied
attributes, positions / velocities within 1e-9 -- bit-exact where no rounding can occur --, yaw against
the shortest-arc spec within 1e-6 pi-units), and an independent Python oracle restates the property on
the implementation's output with exact rational arithmetic.
"""
import math
import os
from fractions import Fraction

from harness.lib import core
from harness.lib.core import Corr, Prop, llit, qlit, slit, zlit

NONE_ID = "<None>"           # reserved Coq spelling of uuid None (None == None in Python)
POS_TOL = 1e-9
YAW_TOL = 1e-6               # pi-units.  pyquaternion's slerp degrades to a normalised lerp for arcs < 3.6 deg;
                             # its deviation from the proportional angle is <= 1.0e-6 rad = 3.2e-7 pi-units.
QUAT_TOL = 1.6e-6            # same bound expressed as |q - q_expected| (half-angle metric)
ERRORS = {"DatasetLoadingError": "ErrNanosecond", "IndexError": "ErrEmpty", "KeyError": "ErrNoTransform",
          "NotImplementedError": "ErrFrameId"}
FRAME_NAMES = {"map": "FMap", "base_link": "FBase"}


# ------------------------------------------------------------------------------------------------
# exact rational helpers (oracle side, independent of the Coq model)
# ------------------------------------------------------------------------------------------------
def F8(v):
    return [Fraction(k, 8) for k in v]


def rot_apply(q, p):
    """Rotate p by the (not necessarily unit) integer quaternion q, exactly."""
    w, x, y, z = [Fraction(c) for c in q]
    n = w * w + x * x + y * y + z * z
    px, py, pz = p
    return [((w * w + x * x - y * y - z * z) * px + 2 * (x * y - w * z) * py + 2 * (x * z + w * y) * pz) / n,
            (2 * (x * y + w * z) * px + (w * w - x * x + y * y - z * z) * py + 2 * (y * z - w * x) * pz) / n,
            (2 * (x * z - w * y) * px + 2 * (y * z + w * x) * py + (w * w - x * x - y * y + z * z) * pz) / n]


def ego_yaw_float(q):
    """yaw (pi-units) of a rotation about z given as (w,0,0,z): the float the harness hands to the model."""
    return 2.0 * math.atan2(q[3], q[0]) / math.pi


def yaw_only(q):
    return q[1] == 0 and q[2] == 0


def global_pos(frame, obj):
    p = F8(obj["pos8"])
    if obj["frame"] == "map":
        return p
    r = rot_apply(frame["ego"]["q"], p)
    t = F8(frame["ego"]["t8"])
    return [a + b for a, b in zip(r, t)]


def global_yaw(frame, obj):
    u = Fraction(obj["yaw16"]) / 16          # yaw16 is an integer or a dyadic float (k/8 of a sixteenth of pi)
    if obj["frame"] == "map":
        return u
    return u + Fraction(ego_yaw_float(frame["ego"]["q"]))


def wrap1(x):
    """representative of x mod 2 in (-1, 1]"""
    return x - 2 * math.ceil((x - 1) / 2)


def case_yawok(case):
    return all(yaw_only(f["ego"]["q"]) for f in case["frames"] if f["ego"] is not None)


def is_sorted(case):
    s = [f["stamp"] for f in case["frames"]]
    return all(a <= b for a, b in zip(s, s[1:]))


def well_formed(frame):
    return frame["ego"] is not None and all(o["frame"] in FRAME_NAMES for o in frame["objs"])


# ------------------------------------------------------------------------------------------------
# building the real objects
# ------------------------------------------------------------------------------------------------
_MANAGER = None


def _manager():
    global _MANAGER
    if _MANAGER is None:
        from perception_eval.config import PerceptionEvaluationConfig
        from perception_eval.manager import PerceptionEvaluationManager

        data = os.path.join(core.REPO, "perception_eval", "test", "sample_data")
        if not os.path.isdir(data):
            data = "/repo/perception_eval/test/sample_data"
        cfg = {"evaluation_task": "detection", "target_labels": ["car"], "max_x_position": 100.0, "max_y_position": 100.0,
               "center_distance_thresholds": [1.0], "plane_distance_thresholds": [1.0], "iou_2d_thresholds": [0.5],
               "iou_3d_thresholds": [0.5], "min_point_numbers": [0], "label_prefix": "autoware",
               "merge_similar_labels": False, "allow_matching_unknown": True}
        out = os.path.join(core.BUILD, "C17_manager")
        os.makedirs(out, exist_ok=True)
        import contextlib
        import io

        with contextlib.redirect_stderr(io.StringIO()):
            conf = PerceptionEvaluationConfig([data], "base_link", out, cfg, False)
            _MANAGER = PerceptionEvaluationManager(conf)
    return _MANAGER


def build_frames(case):
    from perception_eval.common.dataset import FrameGroundTruth
    from perception_eval.common.label import AutowareLabel, Label
    from perception_eval.common.object import DynamicObject
    from perception_eval.common.schema import FrameID
    from perception_eval.common.shape import Shape, ShapeType
    from perception_eval.common.transform import HomogeneousMatrix
    from pyquaternion import Quaternion

    fids = {"map": FrameID.MAP, "base_link": FrameID.BASE_LINK, "lidar_top": FrameID.LIDAR_TOP}
    frames = []
    tag = 0
    for fi, fr in enumerate(case["frames"]):
        objs = []
        for o in fr["objs"]:
            qo = Quaternion(axis=[0.0, 0.0, 1.0], angle=math.pi * o["yaw16"] / 16)
            if o.get("qneg"):
                qo = Quaternion(-qo.q)
            fid = fids[o["frame"]]
            if case.get("str_frames") and o["frame"] in FRAME_NAMES:
                fid = o["frame"]        # the spelling the library itself leaves on the objects of an interpolated frame ("map")
            objs.append(DynamicObject(
                unix_time=fr["stamp"], frame_id=fid,
                position=tuple(k / 8 for k in o["pos8"]),
                orientation=qo,
                shape=Shape(ShapeType.BOUNDING_BOX, (1.0 + (tag % 5) / 4, 1.0 + (tag % 3) / 2, 1.5)),
                velocity=None if case.get("vel_none") or o.get("vnone") else tuple(k / 8 for k in o["vel8"]),
                semantic_score=1.0, semantic_label=Label(AutowareLabel.CAR, "car"),
                pointcloud_num=tag, uuid=o["id"]))
            tag += 1
        tr = None
        if fr["ego"] is not None:
            q = Quaternion(*[float(c) for c in fr["ego"]["q"]]).normalised
            ego2map = HomogeneousMatrix(tuple(k / 8 for k in fr["ego"]["t8"]), q, src=FrameID.BASE_LINK, dst=FrameID.MAP)
            tr = [ego2map]
            st = case.get("sensor_tf")
            if st:
                # the transform list as the loader builds it (_get_transforms): ego2map, sensor2ego, sensor2map = ego2map . sensor2ego
                s2e = HomogeneousMatrix(tuple(k / 8 for k in st["t8"]), Quaternion(*[float(c) for c in st["q"]]).normalised,
                                        src=FrameID.LIDAR_TOP, dst=FrameID.BASE_LINK)
                s2m = ego2map.dot(s2e)
                tr = [ego2map, s2e, s2m] if st["order"] == "loader" else [s2e, s2m, ego2map]
        frames.append(FrameGroundTruth(fr["stamp"], str(fi), objs, transforms=tr))
    return frames


def snapshot(frames):
    from perception_eval.common.schema import FrameID

    out = []
    for f in frames:
        m = f.transforms.get((FrameID.BASE_LINK, FrameID.MAP))
        out.append((f.unix_time, f.frame_name, None if m is None else m.matrix.tolist(),
                    sorted((str(k.src), str(k.dst), v.matrix.tolist()) for k, v in f.transforms.items()),
                    [(o.uuid, o.pointcloud_num, o.unix_time, str(o.frame_id), tuple(o.state.position),
                      tuple(o.state.orientation.q.tolist()), None if o.state.velocity is None else tuple(o.state.velocity), o.state.size,
                      str(type(o.frame_id).__name__)) for o in f.objects]))
    return out


def observe(frames, call):
    from perception_eval.common.dataset import DatasetLoadingError
    from perception_eval.common.schema import FrameID

    try:
        r = call()
    except (DatasetLoadingError, IndexError, KeyError, NotImplementedError) as e:
        return {"kind": "error", "type": type(e).__name__}
    except TypeError as e:      # e.g. arithmetic on a missing velocity: reported by the oracle, never swallowed
        return {"kind": "error", "type": "TypeError", "msg": str(e)[:80]}
    if r is None:
        return {"kind": "none"}
    for i, f in enumerate(frames):
        if r is f:
            return {"kind": "frame", "index": i}
    m = r.transforms[(FrameID.BASE_LINK, FrameID.MAP)]
    objs = []
    for o in r.objects:
        objs.append({"id": o.uuid, "tag": o.pointcloud_num, "time": o.unix_time,
                     "frame": o.frame_id if isinstance(o.frame_id, str) else o.frame_id.value,
                     "pos": [float(v) for v in o.state.position], "vel_none": o.state.velocity is None,
                     "vel": [0.0, 0.0, 0.0] if o.state.velocity is None else [float(v) for v in o.state.velocity],
                     "yaw": float(o.state.orientation.yaw_pitch_roll[0]) / math.pi,
                     "q": [float(v) for v in o.state.orientation.q],
                     "size": [float(v) for v in o.state.size]})
    out = {"kind": "interp", "name": r.frame_name, "stamp": r.unix_time, "objs": objs,
           "ego_t": [float(v) for v in m.position], "ego_yaw": float(m.rotation.yaw_pitch_roll[0]) / math.pi,
           "ego_q": [float(v) for v in m.rotation.q]}
    s2e = r.transforms.get((FrameID.LIDAR_TOP, FrameID.BASE_LINK))
    s2m = r.transforms.get((FrameID.LIDAR_TOP, FrameID.MAP))
    if s2e is not None and s2m is not None:
        # recorded in the distribution only (the property text is silent about the other transforms of the frame)
        out["sensor2map_follows_ego"] = bool(abs(m.dot(s2e).matrix - s2m.matrix).max() <= 1e-6)
    return out


# ------------------------------------------------------------------------------------------------
# generators
# ------------------------------------------------------------------------------------------------
IDS = ["a", "b", "ab", "ba", "c", "abc"]      # some ids are prefixes / substrings of others: pairing is by EQUAL uuid
YAW_EGOS = [[1, 0, 0, 0], [2, 0, 0, 1], [3, 0, 0, -1], [1, 0, 0, 1], [4, 0, 0, 3], [5, 0, 0, -2], [7, 0, 0, 1], [-3, 0, 0, 2],
            [1, 0, 0, 3], [6, 0, 0, 5], [-5, 0, 0, -1], [9, 0, 0, 2]]


def gen_ego(rng, general):
    if general:
        while True:
            q = [rng.randint(-6, 6) for _ in range(4)]
            if any(q) and not yaw_only(q):
                break
    else:
        q = list(rng.choice(YAW_EGOS))
    return {"q": q, "t8": [rng.randint(-2000, 2000), rng.randint(-2000, 2000), rng.randint(-16, 16)]}


def gen_objs(rng, frame_mode, present, state, max_new=1):
    objs = []
    for uid in present:
        st = state.setdefault(uid, {"pos8": [rng.randint(-800, 800), rng.randint(-800, 800), rng.randint(-8, 8)],
                                    "vel8": [rng.randint(-80, 80), rng.randint(-80, 80), 0],
                                    "yaw16": rng.choice([rng.randint(-15, 16), rng.randint(-15, 16), 16, 15.875, -15.875, 16, 8, -8])})
        # random walk so that neighbours differ
        st["pos8"] = [st["pos8"][0] + rng.randint(-40, 40), st["pos8"][1] + rng.randint(-40, 40), st["pos8"][2] + rng.randint(-1, 1)]
        st["vel8"] = [st["vel8"][0] + rng.randint(-8, 8), st["vel8"][1] + rng.randint(-8, 8), 0]
        # turns between neighbours: coarse ones, none, and SMALL ones (1.4 / 2.8 degrees: below the 3.6 degrees under which slerp and any
        # "nearly identical" shortcut switch to linear interpolation) -- also across the +-pi cut and, with qneg, between opposite-signed
        # quaternions of nearly the same orientation
        st["yaw16"] = ((st["yaw16"] + rng.choice([-9, -5, -2, -1, 0, 0, 1, 2, 5, 9, 0.125, -0.125, 0.25, -0.25, 0.125, -0.25]) + 15) % 32) - 15
        fm = frame_mode if frame_mode != "mixed" else rng.choice(["map", "base_link"])
        # the same orientation can be annotated as q or as -q (double cover); neighbouring frames often differ in that sign only
        objs.append({"id": uid, "frame": fm, "pos8": list(st["pos8"]), "vel8": list(st["vel8"]), "yaw16": st["yaw16"], "qneg": rng.random() < 0.3})
    rng.shuffle(objs)
    return objs


def gen_timeline(rng, n, gaps, t0, frame_mode=None, general_ego=None, max_objs=4):
    frame_mode = frame_mode or rng.choice(["map", "base_link", "base_link", "mixed"])
    general_ego = rng.random() < 0.35 if general_ego is None else general_ego
    frames = []
    t = t0
    state = {}
    present = set(rng.sample(IDS, rng.randint(0, max_objs)))
    ego = gen_ego(rng, general_ego)
    for i in range(n):
        if i > 0:
            t += gaps[(i - 1) % len(gaps)] if isinstance(gaps, list) else gaps(rng)
            # ids appear and disappear between neighbours
            for uid in list(present):
                if rng.random() < 0.25:
                    present.discard(uid)
            for uid in IDS:
                if uid not in present and len(present) < max_objs and rng.random() < 0.2:
                    present.add(uid)
            if rng.random() < 0.8:
                ne = gen_ego(rng, general_ego)
                if rng.random() < 0.5:
                    ne["q"] = ego["q"]
                ego = ne
        frames.append({"stamp": t, "ego": {"q": list(ego["q"]), "t8": list(ego["t8"])},
                       "objs": gen_objs(rng, frame_mode, sorted(present), state)})
    return frames


def fix_antipodal(case):
    """The shortest arc is not unique when two yaws are exactly opposite; the property says nothing
    there and the float dot product decides.  Nudge such (measure-zero) inputs away."""
    if not case_yawok(case):
        return
    frs = [f for f in case["frames"] if f["ego"] is not None]
    for _ in range(8):
        changed = False
        for i, f in enumerate(frs):
            for g in frs[i + 1:] + frs[:i]:
                d = Fraction(ego_yaw_float(g["ego"]["q"])) - Fraction(ego_yaw_float(f["ego"]["q"]))
                if abs(abs(wrap1(d)) - 1) < Fraction(1, 10 ** 6):
                    g["ego"]["q"] = [7, 0, 0, 1] if g["ego"]["q"] != [7, 0, 0, 1] else [9, 0, 0, 2]
                    changed = True
                for o in f["objs"]:
                    for p in g["objs"]:
                        if o["id"] == p["id"] and o["frame"] in FRAME_NAMES and p["frame"] in FRAME_NAMES:
                            d = global_yaw(g, p) - global_yaw(f, o)
                            if abs(abs(wrap1(d)) - 1) < Fraction(1, 10 ** 6):
                                p["yaw16"] = ((p["yaw16"] + 1 + 15) % 32) - 15
                                changed = True
        if not changed:
            return


def neighbours_brute(stamps, t):
    """Declarative neighbours of t in a time-ordered list: last stamp <= t, first stamp > t (indices)."""
    b = None
    a = None
    for i, s in enumerate(stamps):
        if s <= t:
            b = i
        elif a is None:
            a = i
    return b, a


def boundary_queries(stamps, rng, limit):
    """Query times on / next to frames and mid-gaps, tolerances exactly at / next to each time difference."""
    order = sorted(set(stamps))
    ts = {order[0] - 10, order[0] - 1, order[-1] + 1, order[-1] + 7}
    pairs = list(zip(order, order[1:]))
    if len(pairs) > 5:
        pairs = pairs[:2] + rng.sample(pairs[2:], 3)
    for s1, s2 in pairs:
        ts.update({s1, s1 + 1, (s1 + s2) // 2, (s1 + s2 + 1) // 2, (s1 + s2) // 2 - 1, s2 - 1, s2})
    ts.update(order[:3])
    out = []
    for t in sorted(ts):
        b, a = neighbours_brute(sorted(stamps), t)
        ss = sorted(stamps)
        ds = set()
        if b is not None:
            ds.add(t - ss[b])
        if a is not None:
            ds.add(ss[a] - t)
        tols = {0, -1, max(ds) if ds else 5, 10 ** 9}
        for d in ds:
            tols.update({d - 1, d, d + 1})
        for tol in sorted(tols):
            out.append([t, tol])
    if len(out) > limit:
        keep = out[:: max(1, len(out) // limit)][:limit // 2]
        keep += rng.sample(out, limit - len(keep))
        out = sorted({(t, tol) for t, tol in keep})
        out = [list(x) for x in out]
    return out


def random_queries(stamps, rng, k):
    lo, hi = min(stamps), max(stamps)
    span = max(hi - lo, 1000)
    typical_gap = max((hi - lo) // max(len(stamps) - 1, 1), 2)
    out = []
    for _ in range(k):
        r = rng.random()
        if r < 0.15:
            t = rng.choice(stamps)
        elif r < 0.85:
            t = rng.randint(lo, hi) if hi > lo else lo
        else:
            t = rng.randint(lo - span // 4, hi + span // 4)
        tol = rng.choice([typical_gap // 2, typical_gap, typical_gap * 2, 75000, rng.randint(0, 2 * typical_gap), typical_gap // 3])
        out.append([t, tol])
    return out


def witnesses():
    def obj(uid, frame, pos8, yaw16):
        return {"id": uid, "frame": frame, "pos8": pos8, "vel8": [8, 0, 0], "yaw16": yaw16}

    cases = []
    # F10 (repaired by a fix: commit): query 10 us before the first of three frames
    fr = [{"stamp": 1000000 + 100000 * i, "ego": {"q": [1, 0, 0, 0], "t8": [80 * i, 0, 0]},
           "objs": [obj("a", "base_link", [80, 16 + 8 * i, 0], 4)]} for i in range(3)]
    cases.append({"stream": "witness", "frames": fr,
                  "queries": [[999990, 75000], [999990, 10], [999990, 9], [1000000, 75000], [1050000, 75000], [1250000, 75000],
                              [1200010, 75000], [1200010, 9]]})
    # the time line of Props/C17.v (ego turning by a quarter turn, arc through pi)
    fr = [{"stamp": 1000, "ego": {"q": [1, 0, 0, 1], "t8": [80, 0, 0]},
           "objs": [obj("a", "base_link", [8, 16, 0], 4), obj("b", "map", [24, 16, 0], 0)]},
          {"stamp": 2000, "ego": {"q": [1, 0, 0, 1], "t8": [96, 0, 0]},
           "objs": [obj("c", "map", [40, 40, 0], 0), obj("a", "base_link", [16, 16, 0], -14)]},
          {"stamp": 2100, "ego": {"q": [1, 0, 0, 1], "t8": [104, 0, 0]}, "objs": []}]
    cases.append({"stream": "witness", "frames": fr,
                  "queries": [[1250, 750], [1250, 749], [1750, 749], [1500, 499], [1500, 500], [990, 10], [990, 9], [2100, 0],
                              [2200, 100], [1000, 1000], [1501, 499], [2051, 49], [2050, 50]]})
    return cases


def malformed_cases(rng, n_cases):
    out = []
    # empty list, nanosecond time stamps
    out.append({"stream": "malformed", "frames": [], "queries": [[5, 5], [10 ** 17 + 1, 5], [10 ** 17, 5]]})
    fr = gen_timeline(rng, 3, [100000], 10 ** 17 - 150000, general_ego=False)
    out.append({"stream": "malformed", "frames": fr,
                "queries": [[10 ** 17, 100000], [10 ** 17 + 1, 100000], [10 ** 17 + 20000, 10 ** 6], [1624157578750212000, 75000]]})
    for k in range(n_cases):
        n = rng.randint(2, 8)
        fr = gen_timeline(rng, n, lambda r: r.choice([1, 5, 10, 100, 1000]), rng.choice([0, 1000, 1600000000000000]))
        kind = k % 5
        if kind == 0:      # not time-ordered
            rng.shuffle(fr)
        elif kind == 1:    # a frame without BASE_LINK->MAP transform
            rng.choice(fr)["ego"] = None
        elif kind == 2:    # an object in another coordinate frame
            f = rng.choice(fr)
            if not f["objs"]:
                f["objs"] = gen_objs(rng, "map", ["a"], {})
            rng.choice(f["objs"])["frame"] = "lidar_top"
        elif kind == 3:    # duplicated uuids inside a frame, uuid None
            for f in fr:
                for o in f["objs"]:
                    r = rng.random()
                    if r < 0.3:
                        o["id"] = None
                    elif r < 0.6:
                        o["id"] = "a"
        else:              # duplicated time stamps (still time-ordered), reversed order
            if rng.random() < 0.5:
                for i in range(1, len(fr)):
                    if rng.random() < 0.5:
                        fr[i]["stamp"] = fr[i - 1]["stamp"]
            else:
                fr.reverse()
        stamps = [f["stamp"] for f in fr]
        out.append({"stream": "malformed", "frames": fr, "queries": boundary_queries(stamps, rng, 24)})
    return out


class LookupCorr(Corr):
    name = "lookup"
    header = ("From Coq Require Import List Bool ZArith QArith String.\n"
              "From PE Require Import Base.CaseUtil Model.Lookup.\n"
              "Import ListNotations.\nOpen Scope string_scope.\nOpen Scope Z_scope.\n")
    requires = ["Model/Lookup.vo", "Base/CaseUtil.vo"]
    shard = 8

    # -------------------------------------------------------------------------------------------- cases
    def cases(self, tier, rng):
        big = tier != "quick"
        out = witnesses()
        n_typ, n_bnd, n_mal = (44, 56, 24) if not big else (500, 600, 200)
        max_n = 30 if not big else 40
        # typical: realistic 10 Hz time lines with jitter
        for k in range(n_typ):
            n = rng.randint(1, max_n) if k % 3 else rng.randint(2, 8)
            t0 = rng.choice([0, 1000, 1624157578750212, 1700000000000000 + rng.randint(0, 10 ** 9)])
            fr = gen_timeline(rng, n, lambda r: 100000 + r.randint(-20000, 20000), t0)
            stamps = [f["stamp"] for f in fr]
            out.append({"stream": "typical", "frames": fr, "queries": random_queries(stamps, rng, 14 if not big else 20)})
        # boundary: small gaps, every comparison hit with equality and its neighbours
        for k in range(n_bnd):
            n = rng.choice([1, 1, 2, 2, 3, 3, 4, 5, 6, rng.randint(7, max_n)])
            gaps = [rng.choice([1, 2, 3, 4, 10, 11, 100, 101]) for _ in range(max(n - 1, 1))]
            t0 = rng.choice([0, 5, 1000, 1624157578750212])
            fr = gen_timeline(rng, n, gaps, t0, max_objs=rng.choice([0, 2, 4, 5]))
            stamps = [f["stamp"] for f in fr]
            out.append({"stream": "boundary", "frames": fr, "queries": boundary_queries(stamps, rng, 30 if not big else 60)})
        out += malformed_cases(rng, n_mal)
        # objects whose velocity could not be estimated (the loader yields None): the model sees a zero velocity
        for k, c in enumerate(out):
            if c.get("stream") in ("typical", "boundary") and k % 6 == 2:
                c["vel_none"] = True
                for f in c["frames"]:
                    for o in f["objs"]:
                        o["vel8"] = [0, 0, 0]
        # ... and time lines where only SOME objects lack a velocity, so that an object pairs a neighbour with and one without a velocity
        # (either side); the property text is silent about the velocity of such a pair: anything but an exception is accepted
        for k, c in enumerate(out):
            if c.get("stream") in ("typical", "boundary") and k % 6 == 4:
                c["vel_mixed"] = True
                for f in c["frames"]:
                    for o in f["objs"]:
                        if rng.random() < 0.35:
                            o["vnone"] = True
                            o["vel8"] = [0, 0, 0]
        # input representations: frame ids of the objects spelled as strings; the transform list the loader attaches
        for k, c in enumerate(out):
            if c.get("stream") in ("typical", "boundary", "witness"):
                if k % 5 == 1:
                    c["str_frames"] = True
                if k % 3 != 2:
                    c["sensor_tf"] = {"order": "loader" if k % 2 else "sensor_first",
                                      "t8": [rng.randint(-16, 16), rng.randint(-8, 8), rng.randint(0, 24)],
                                      "q": rng.choice([[1, 0, 0, 0], [2, 0, 0, 1], [1, 1, 1, 1], [3, 1, 0, 2], [5, -2, 1, 0]])}
        for c in out:
            fix_antipodal(c)
        return out

    # -------------------------------------------------------------------------------------------- implementation
    def run_impl(self, case):
        from perception_eval.common.dataset import get_interpolated_now_frame, get_now_frame

        frames = build_frames(case)
        mgr = _manager()
        mgr.ground_truth_frames = frames
        before = snapshot(frames)
        res = []
        for qi, (t, tol) in enumerate(case["queries"]):
            o_now = observe(frames, lambda: get_now_frame(frames, t, tol))
            o_int = observe(frames, lambda: get_interpolated_now_frame(frames, t, tol))
            m_now = observe(frames, lambda: mgr.get_ground_truth_now_frame(t, tol))
            m_int = observe(frames, lambda: mgr.get_ground_truth_now_frame(unix_time=t, threshold_min_time=tol,
                                                                            interpolate_ground_truth=True))
            q = {"now": o_now, "interp": o_int}
            if tol == 75000:
                # the manager's documented default tolerance (75 ms) and default interpolate_ground_truth=False
                d_now = observe(frames, lambda: mgr.get_ground_truth_now_frame(t))
                d_int = observe(frames, lambda: mgr.get_ground_truth_now_frame(t, interpolate_ground_truth=True))
                q["mgr_defaults"] = "same" if (d_now == o_now and d_int == o_int) else {"now": d_now, "interp": d_int}
            if qi % 3 == 0:
                # the same query time / tolerance in another number type (float of integral value, numpy integer): same answer
                import numpy as np

                form = ["float_time", "numpy_int", "float_tolerance", "float_both"][(qi // 3) % 4]
                t2 = float(t) if form in ("float_time", "float_both") else np.int64(t) if form == "numpy_int" else t
                tol2 = float(tol) if form in ("float_tolerance", "float_both") else np.int64(tol) if form == "numpy_int" else tol
                if t2 == t and tol2 == tol and abs(t) < 2 ** 53 and abs(tol) < 2 ** 53:
                    r_now = observe(frames, lambda: get_now_frame(frames, t2, tol2))
                    r_int = observe(frames, lambda: get_interpolated_now_frame(frames, t2, tol2))
                    same = r_now == o_now and r_int == o_int
                    q["number_type"] = {"form": form, "same": same}
                    if not same:
                        q["number_type"].update({"now": self._short(r_now), "interp": self._short(r_int),
                                                 "interp_stamp": repr(r_int.get("stamp")),
                                                 "object_stamps": [repr(x["time"]) for x in r_int.get("objs", [])][:4]})
            q["mgr_now"] = "same" if m_now == o_now else m_now
            q["mgr_interp"] = "same" if m_int == o_int else m_int
            if qi % 2 == 1:
                # the same time asked twice in a row under two tolerances (each mode): the answer is that of the tolerance given NOW
                alt = case["queries"][(qi + 1) % len(case["queries"])][1]
                alt = alt if alt != tol else 2 * tol + 1
                observe(frames, lambda: mgr.get_ground_truth_now_frame(t, alt))
                a_now = observe(frames, lambda: mgr.get_ground_truth_now_frame(t, tol))
                observe(frames, lambda: mgr.get_ground_truth_now_frame(t, alt, interpolate_ground_truth=True))
                a_int = observe(frames, lambda: mgr.get_ground_truth_now_frame(t, tol, interpolate_ground_truth=True))
                q["mgr_after_other_tolerance"] = "same" if (a_now == o_now and a_int == o_int) else {"other_tolerance": alt, "now": self._short(a_now), "interp": self._short(a_int)}
            res.append(q)
        mgr.ground_truth_frames = []
        return {"queries": res, "inputs_unchanged": snapshot(frames) == before}

    # -------------------------------------------------------------------------------------------- Coq side
    @staticmethod
    def _vec(v):
        return f"(mkVec {qlit(v[0])} {qlit(v[1])} {qlit(v[2])})"

    def _frames(self, case):
        fl = []
        tag = 0
        for fr in case["frames"]:
            ol = []
            for o in fr["objs"]:
                uid = NONE_ID if o["id"] is None else o["id"]
                ol.append(f"(mkObj {slit(uid)} {zlit(tag)} {zlit(fr['stamp'])} {FRAME_NAMES.get(o['frame'], 'FOther')} "
                          f"{self._vec([Fraction(k, 8) for k in o['pos8']])} {self._vec([Fraction(k, 8) for k in o['vel8']])} "
                          f"{qlit(Fraction(o['yaw16']) / 16)})")
                tag += 1
            if fr["ego"] is None:
                ego = "None"
            else:
                q = fr["ego"]["q"]
                ey = ego_yaw_float(q) if yaw_only(q) else 0.0
                ego = (f"(Some (mkEgo {qlit(q[0])} {qlit(q[1])} {qlit(q[2])} {qlit(q[3])} "
                       f"{self._vec([Fraction(k, 8) for k in fr['ego']['t8']])} {qlit(ey)}))")
            fl.append(f"(mkFrame {zlit(fr['stamp'])} {llit(ol)} {ego})")
        return llit(fl)

    def _exactness(self, case, o, t):
        """(position tolerance, velocity tolerance) for one observed object: 0 where the float
        computation cannot round: copied objects and a = 0, positions only if the source is in the map frame."""
        src = None
        tag = 0
        for fr in case["frames"]:
            for so in fr["objs"]:
                if tag == o["tag"]:
                    src = (fr, so)
                tag += 1
        if src is None:
            return POS_TOL, POS_TOL
        fr, so = src
        copied = o["time"] != t or fr["stamp"] == t     # singleton (keeps its own time stamp) or a = 0
        if not copied:
            return POS_TOL, POS_TOL
        return (0 if so["frame"] == "map" else POS_TOL), 0

    def _obs(self, case, o, t, yawok):
        k = o["kind"]
        if k == "none":
            return "ONone"
        if k == "frame":
            return f"(OFrame {o['index']})"
        if k == "error":
            return f"(OError {ERRORS.get(o['type'], 'ErrEmpty')})"
        objs = []
        for x in o["objs"]:
            pt, vt = self._exactness(case, x, t)
            if x.get("vel_none") and not case.get("vel_none"):
                vt = 10 ** 6          # a pair with one missing velocity: the model (zero velocity for the missing one) is not compared
            uid = NONE_ID if x["id"] is None else x["id"]
            yaw = f"(Some {qlit(x['yaw'])}%Q)" if yawok else "None"
            objs.append(f"(mkOObj {slit(uid)} {zlit(x['tag'])} {zlit(x['time'])} {'true' if x['frame'] == 'map' else 'false'} "
                        f"{self._vec(x['pos'])} {qlit(Fraction(pt))} {self._vec(x['vel'])} {qlit(Fraction(vt))} {yaw})")
        ey = f"(Some {qlit(o['ego_yaw'])}%Q)" if yawok else "None"
        return f"(OInterp {int(o['name'])} {zlit(o['stamp'])} {llit(objs)} {self._vec(o['ego_t'])} {ey})"

    def coq_term(self, case, obs):
        yawok = case_yawok(case)
        parts = []
        for (t, tol), q in zip(case["queries"], obs["queries"]):
            a = self._obs(case, q["now"], t, yawok)
            b = self._obs(case, q["interp"], t, yawok)
            c = "o1" if q["mgr_now"] == "same" else self._obs(case, q["mgr_now"], t, yawok)
            d = "o2" if q["mgr_interp"] == "same" else self._obs(case, q["mgr_interp"], t, yawok)
            parts.append(f"(let o1 := {a} in let o2 := {b} in check_query l {zlit(t)} {zlit(tol)} o1 o2 {c} {d})")
        return f"(let l := {self._frames(case)} in forallb (fun b : bool => b) {llit(parts)})"

    def coq_debug(self, case, obs):
        qs = llit([f"({zlit(t)}, {zlit(tol)})" for t, tol in case["queries"][:12]])
        return (f"(let l := {self._frames(case)} in map (fun q : Z * Z => (q, get_now_frame l (fst q) (snd q), "
                f"get_interpolated_now_frame l (fst q) (snd q))) {qs})")

    # -------------------------------------------------------------------------------------------- oracle
    def oracle(self, case, obs):
        if "queries" not in obs:
            # an exception outside the documented ones (DatasetLoadingError / IndexError / KeyError /
            # NotImplementedError) escaped from a lookup: the lookup did not return a frame or None
            return f"lookup raised an unexpected exception: {obs.get('__harness_exception__')}"
        stamps = [f["stamp"] for f in case["frames"]]
        ordered = is_sorted(case)
        if not obs["inputs_unchanged"]:
            return "a lookup modified the loaded frames (objects, stamps or transforms of the time line differ after the queries)"
        for (t, tol), q in zip(case["queries"], obs["queries"]):
            if q.get("mgr_after_other_tolerance", "same") != "same":
                return (f"lookup(t={t}, tol={tol}) through the manager right after the same time was asked with another tolerance differs from the "
                        f"lookup itself: {str(q['mgr_after_other_tolerance'])[:300]}")
            if q.get("mgr_defaults", "same") != "same":
                return (f"manager lookup at t={t} with the documented default tolerance (75 ms) / default interpolate_ground_truth differs from the "
                        f"explicit call: {str(q['mgr_defaults'])[:200]}")
            nt = q.get("number_type")
            if nt and not nt["same"]:
                return (f"lookup at t={t}, tol={tol} answers differently when the same numbers are passed as {nt['form']}: "
                        f"now {self._short(q['now'])} vs {nt['now']}, interpolated {self._short(q['interp'])} vs {nt['interp']} "
                        f"(frame stamp {nt['interp_stamp']}, object stamps {nt['object_stamps']})")
            for which in ("now", "mgr_now"):
                o = q["now"] if q[which] == "same" else q[which]
                msg = self._oracle_now(stamps, t, tol, o)
                if msg:
                    return f"{which}(t={t}, tol={tol}): {msg}"
            if not ordered:
                continue        # the interpolated lookup is specified for time-ordered lists only
            for which in ("interp", "mgr_interp"):
                o = q["interp"] if q[which] == "same" else q[which]
                msg = self._oracle_interp(case, stamps, t, tol, o)
                if msg:
                    return f"{which}(t={t}, tol={tol}): {msg}"
        return None

    @staticmethod
    def _oracle_now(stamps, t, tol, o):
        if not stamps or t > 10 ** 17:
            # documented rejection of nanosecond stamps / nothing to return: anything but a frame is acceptable
            return None if o["kind"] in ("error", "none") else f"returned {o} for an empty list / nanosecond stamp"
        if o["kind"] == "error":
            return f"unexpected error {o['type']}"
        m = min(abs(t - s) for s in stamps)
        if m > tol:
            return None if o["kind"] == "none" else f"nearest frame is {m} us away (> tolerance) but got {o}"
        first = [i for i, s in enumerate(stamps) if abs(t - s) == m][0]
        if o["kind"] != "frame":
            return f"frame {first} is {m} us away (<= tolerance) but got {o['kind']}"
        if abs(t - stamps[o["index"]]) != m:
            return f"returned frame {o['index']} at |dt|={abs(t - stamps[o['index']])} but frame {first} is nearer (|dt|={m})"
        if o["index"] != first:
            return f"returned frame {o['index']}, not the first nearest frame {first} (tie at |dt|={m})"
        return None

    def _oracle_interp(self, case, stamps, t, tol, o):
        b, a = neighbours_brute(stamps, t)
        ub = b is not None and t - stamps[b] <= tol
        ua = a is not None and stamps[a] - t <= tol
        if not ub and not ua:
            return None if o["kind"] == "none" else f"no neighbour within tolerance but got {o['kind']}"
        if ub != ua:
            want = b if ub else a
            if o["kind"] == "frame" and o["index"] == want:
                return None
            return f"only the {'before' if ub else 'after'} neighbour (frame {want}) is within tolerance but got {self._short(o)}"
        fb, fa = case["frames"][b], case["frames"][a]
        if not (well_formed(fb) and well_formed(fa)):
            return None if o["kind"] == "error" else f"malformed neighbours but got {o['kind']}"
        if o["kind"] != "interp":
            return f"both neighbours (frames {b}, {a}) are within tolerance but got {self._short(o)}"
        if o["stamp"] != t:
            return f"interpolated frame is stamped {o['stamp']}, not the query time"
        if o["name"] != str(b):
            return f"interpolated frame derives from frame {o['name']}, expected the before frame {b}"
        t1, t2 = stamps[b], stamps[a]
        al = Fraction(t - t1, t2 - t1)
        if not (0 <= al < 1):
            return f"alpha={al} outside [0,1)"
        yawok = case_yawok(case)
        # ego pose
        e1, e2 = F8(fb["ego"]["t8"]), F8(fa["ego"]["t8"])
        for c in range(3):
            want = (1 - al) * e1[c] + al * e2[c]
            if abs(Fraction(o["ego_t"][c]) - want) > Fraction(POS_TOL):
                return f"ego translation[{c}]={o['ego_t'][c]} expected {float(want)}"
        msg = self._check_quat(o["ego_q"], self._fq(fb["ego"]["q"]), self._fq(fa["ego"]["q"]), float(al), "ego rotation")
        if msg:
            return msg
        # expected uuid list: before frame in order, then the new ones of the after frame
        ids1 = [x["id"] for x in fb["objs"]]
        ids2 = [x["id"] for x in fa["objs"]]
        dup2 = len(set(ids2)) != len(ids2)
        got = [x["id"] for x in o["objs"]]
        if not dup2:
            want_ids = ids1 + [i for i in ids2 if i not in ids1]
            if got != want_ids:
                return f"uuid list {got} expected {want_ids} (before {ids1}, after {ids2})"
        elif set(got) != set(ids1) | set(ids2) or got[:len(ids1)] != ids1:
            return f"uuid list {got} is not before-ids followed by the new after-ids (before {ids1}, after {ids2})"
        tags1 = self._tags(case, b)
        tags2 = self._tags(case, a)
        for k, x in enumerate(o["objs"]):
            if x["frame"] != "map":
                return f"object {k} is reported in frame {x['frame']}, expected map"
            if k < len(ids1):
                o1 = fb["objs"][k]
                if x["tag"] != tags1[k]:
                    return f"object {k} ({x['id']}) carries the attributes of object tag {x['tag']}, expected {tags1[k]}"
                p1, y1 = global_pos(fb, o1), global_yaw(fb, o1)
                if o1["id"] in ids2:
                    o2 = fa["objs"][ids2.index(o1["id"])]
                    p2, y2 = global_pos(fa, o2), global_yaw(fa, o2)
                    if x["time"] != t:
                        return f"object {k} ({x['id']}) is stamped {x['time']}, not the query time"
                    n_none = sum(1 for z in (o1, o2) if case.get("vel_none") or z.get("vnone"))
                    if n_none != 1 and bool(x.get("vel_none")) != (n_none == 2):
                        return f"object {k} ({x['id']}): velocity is {'None' if x.get('vel_none') else 'a vector'} although both neighbours carry {'none' if n_none else 'one'}"
                    if x["size"] != [1.0 + (x["tag"] % 5) / 4, 1.0 + (x["tag"] % 3) / 2, 1.5]:
                        return f"object {k} ({x['id']}): size {x['size']} is not the size of the object it derives from (tag {x['tag']})"
                    for c in range(3):
                        want = (1 - al) * p1[c] + al * p2[c]
                        if al == 0 and o1["frame"] == "map":
                            if Fraction(x["pos"][c]) != want:
                                return f"object {k} ({x['id']}) is not reproduced exactly at its own time stamp: pos[{c}]={x['pos'][c]!r} vs {float(want)!r}"
                        elif abs(Fraction(x["pos"][c]) - want) > Fraction(POS_TOL):
                            return (f"object {k} ({x['id']}) pos[{c}]={x['pos'][c]} is not on the segment at the proportional time "
                                    f"(alpha={float(al)}): expected {float(want)}")
                        wv = (1 - al) * Fraction(o1["vel8"][c], 8) + al * Fraction(o2["vel8"][c], 8)
                        if n_none != 1 and abs(Fraction(x["vel"][c]) - wv) > Fraction(POS_TOL):
                            return f"object {k} ({x['id']}) vel[{c}]={x['vel'][c]} expected {float(wv)}"
                    if yawok:
                        d = wrap1(y2 - y1)
                        wy = y1 + al * d
                        if abs(wrap1(Fraction(x["yaw"]) - wy)) > Fraction(YAW_TOL):
                            return (f"object {k} ({x['id']}) yaw={x['yaw']} pi is not on the shortest arc from {float(y1)} pi to "
                                    f"{float(y2)} pi at alpha={float(al)}: expected {float(wrap1(wy))} pi")
                    msg = self._check_quat(x["q"], self._gq(fb, o1), self._gq(fa, o2), float(al), f"object {k} ({x['id']}) orientation")
                    if msg:
                        return msg
                    continue
                src, fsrc = o1, fb
            else:
                cand = [j for j, i in enumerate(ids2) if i == x["id"]]
                if not cand or x["tag"] not in [tags2[j] for j in cand]:
                    return f"object {k} ({x['id']}, tag {x['tag']}) is not an object of the after frame"
                src, fsrc = fa["objs"][tags2.index(x["tag"])], fa
            # kept singleton: unchanged apart from the conversion to the map frame
            if x["size"] != [1.0 + (x["tag"] % 5) / 4, 1.0 + (x["tag"] % 3) / 2, 1.5]:
                return f"kept object {k} ({x['id']}): size {x['size']} changed"
            if bool(x.get("vel_none")) != bool(case.get("vel_none") or src.get("vnone")):
                return f"kept object {k} ({x['id']}): velocity None-ness changed"
            p = global_pos(fsrc, src)
            for c in range(3):
                tolc = 0 if src["frame"] == "map" else Fraction(POS_TOL)
                if abs(Fraction(x["pos"][c]) - p[c]) > tolc:
                    return f"kept object {k} ({x['id']}) pos[{c}]={x['pos'][c]} expected {float(p[c])}"
                if Fraction(x["vel"][c]) != Fraction(src["vel8"][c], 8):
                    return f"kept object {k} ({x['id']}) velocity changed"
            if yawok and abs(wrap1(Fraction(x["yaw"]) - global_yaw(fsrc, src))) > Fraction(YAW_TOL):
                return f"kept object {k} ({x['id']}) yaw={x['yaw']} expected {float(global_yaw(fsrc, src))}"
        return None

    @staticmethod
    def _short(o):
        return o["kind"] + (f" {o['index']}" if o["kind"] == "frame" else "") + (f" {o['type']}" if o["kind"] == "error" else "")

    @staticmethod
    def _tags(case, fi):
        start = sum(len(f["objs"]) for f in case["frames"][:fi])
        return list(range(start, start + len(case["frames"][fi]["objs"])))

    @staticmethod
    def _fq(q):
        n = math.sqrt(sum(c * c for c in q))
        return [c / n for c in q]

    @staticmethod
    def _qmul(a, b):
        return [a[0] * b[0] - a[1] * b[1] - a[2] * b[2] - a[3] * b[3],
                a[0] * b[1] + a[1] * b[0] + a[2] * b[3] - a[3] * b[2],
                a[0] * b[2] - a[1] * b[3] + a[2] * b[0] + a[3] * b[1],
                a[0] * b[3] + a[1] * b[2] - a[2] * b[1] + a[3] * b[0]]

    def _gq(self, frame, o):
        th = math.pi * o["yaw16"] / 16
        q = [math.cos(th / 2), 0.0, 0.0, math.sin(th / 2)]
        return q if o["frame"] == "map" else self._qmul(self._fq(frame["ego"]["q"]), q)

    def _check_quat(self, got, q1, q2, al, what):
        """independent shortest-arc formula: q1 * (q1^-1 q2)^alpha with the relative rotation taken on the
        short side; compared up to the sign of the quaternion"""
        r = self._qmul([q1[0], -q1[1], -q1[2], -q1[3]], q2)
        if abs(r[0]) < 1e-7:
            return None            # opposite orientations: the shortest arc is not unique
        if r[0] < 0:
            r = [-c for c in r]
        s = math.sqrt(r[1] ** 2 + r[2] ** 2 + r[3] ** 2)
        half = math.atan2(s, r[0])
        if s < 1e-300:
            ra = [1.0, 0.0, 0.0, 0.0]
        else:
            k = math.sin(al * half) / s
            ra = [math.cos(al * half), r[1] * k, r[2] * k, r[3] * k]
        want = self._qmul(q1, ra)
        d = min(math.sqrt(sum((g - w) ** 2 for g, w in zip(got, want))), math.sqrt(sum((g + w) ** 2 for g, w in zip(got, want))))
        if d > QUAT_TOL:
            return f"{what} {got} is not on the shortest rotation arc at alpha={al}: expected +-{want} (distance {d:.3g})"
        return None

    # -------------------------------------------------------------------------------------------- bookkeeping
    def nontrivial(self, case, obs):
        if "queries" not in obs:
            return False
        kinds = {q["now"]["kind"] for q in obs["queries"]} | {q["interp"]["kind"] + "*" for q in obs["queries"]}
        return len(case["frames"]) >= 2 and len(kinds) >= 3

    def describe(self, case, obs):
        if "queries" not in obs:
            return {"case": case, "observed": obs}
        return {"case": {"stream": case["stream"], "stamps": [f["stamp"] for f in case["frames"]][:6],
                         "n_frames": len(case["frames"]), "queries": case["queries"][:4]},
                "observed": [{"now": self._short(q["now"]), "interp": self._short(q["interp"])} for q in obs["queries"][:4]]}

    def distribution(self, cases, obs):
        d = {"timelines": len(cases), "queries": 0, "streams": {}, "frames_per_timeline": {"1": 0, "2-5": 0, "6-15": 0, "16+": 0, "0": 0},
             "now": {}, "interp": {}, "not_time_ordered": 0, "yaw_checked_timelines": 0,
             "tolerance_equal_to_dt": 0, "nearest_ties": 0, "alpha_zero_interpolations": 0,
             "paired_objects": 0, "kept_before_only": 0, "kept_after_only": 0, "manager_differs_from_function": 0,
             "inputs_unchanged": 0, "timelines_without_velocities": 0, "timelines_where_some_objects_lack_a_velocity": 0,
             "interpolated_pairs_with_one_missing_velocity": 0, "interpolations_whose_common_ids_are_listed_in_another_relative_order": 0,
             "interpolations_pairing_ids_that_are_substrings_of_other_ids_present": 0, "timelines_with_string_frame_ids": 0,
             "timelines_with_loader_transform_lists": {}, "queries_repeated_in_another_number_type": {},
             "interpolated_frames_whose_sensor2map_follows_the_interpolated_ego": {"yes": 0, "no (kept from the before frame)": 0}, "query_before_first": 0, "query_after_last": 0, "query_on_frame": 0}
        for c, o in zip(cases, obs):
            if "queries" not in o:
                continue
            n = len(c["frames"])
            d["frames_per_timeline"]["0" if n == 0 else "1" if n == 1 else "2-5" if n <= 5 else "6-15" if n <= 15 else "16+"] += 1
            d["streams"][c["stream"]] = d["streams"].get(c["stream"], 0) + len(c["queries"])
            d["not_time_ordered"] += 0 if is_sorted(c) else 1
            d["yaw_checked_timelines"] += 1 if case_yawok(c) else 0
            d["inputs_unchanged"] += 1 if o["inputs_unchanged"] else 0
            d["timelines_without_velocities"] += bool(c.get("vel_none"))
            d["timelines_where_some_objects_lack_a_velocity"] += bool(c.get("vel_mixed"))
            d["timelines_with_string_frame_ids"] += bool(c.get("str_frames"))
            if c.get("sensor_tf"):
                k = c["sensor_tf"]["order"]
                d["timelines_with_loader_transform_lists"][k] = d["timelines_with_loader_transform_lists"].get(k, 0) + 1
            stamps = [f["stamp"] for f in c["frames"]]
            for (t, tol), q in zip(c["queries"], o["queries"]):
                d["queries"] += 1
                kn = q["now"]["kind"] + (":" + q["now"]["type"] if q["now"]["kind"] == "error" else "")
                ki = q["interp"]["kind"] + (":" + q["interp"]["type"] if q["interp"]["kind"] == "error" else "")
                d["now"][kn] = d["now"].get(kn, 0) + 1
                d["interp"][ki] = d["interp"].get(ki, 0) + 1
                if q.get("number_type"):
                    k = q["number_type"]["form"]
                    d["queries_repeated_in_another_number_type"][k] = d["queries_repeated_in_another_number_type"].get(k, 0) + 1
                if "sensor2map_follows_ego" in q["interp"]:
                    d["interpolated_frames_whose_sensor2map_follows_the_interpolated_ego"][
                        "yes" if q["interp"]["sensor2map_follows_ego"] else "no (kept from the before frame)"] += 1
                if q["mgr_now"] != "same" or q["mgr_interp"] != "same":
                    d["manager_differs_from_function"] += 1
                if stamps:
                    ds = sorted(abs(t - s) for s in stamps)
                    d["tolerance_equal_to_dt"] += 1 if tol in ds[:2] else 0
                    d["nearest_ties"] += 1 if len(ds) > 1 and ds[0] == ds[1] else 0
                    d["query_before_first"] += 1 if t < min(stamps) else 0
                    d["query_after_last"] += 1 if t > max(stamps) else 0
                    d["query_on_frame"] += 1 if t in stamps else 0
                if q["interp"]["kind"] == "interp":
                    d["alpha_zero_interpolations"] += 1 if t in stamps else 0
                    b, a = neighbours_brute(stamps, t)
                    if is_sorted(c) and b is not None and a is not None:
                        ids_b = [z["id"] for z in c["frames"][b]["objs"]]
                        ids_a = [z["id"] for z in c["frames"][a]["objs"]]
                        d["paired_objects"] += sum(1 for i in ids_b if i in ids_a)
                        common_b = [i for i in ids_b if i in ids_a]
                        common_a = [i for i in ids_a if i in ids_b]
                        d["interpolations_whose_common_ids_are_listed_in_another_relative_order"] += common_a != common_b
                        every = [i for i in ids_b + ids_a if isinstance(i, str)]
                        d["interpolations_pairing_ids_that_are_substrings_of_other_ids_present"] += any(
                            isinstance(i, str) and any(i != j and i in j for j in every) for i in common_b)
                        vb = {z["id"]: bool(z.get("vnone")) for z in c["frames"][b]["objs"]}
                        va = {z["id"]: bool(z.get("vnone")) for z in c["frames"][a]["objs"]}
                        d["interpolated_pairs_with_one_missing_velocity"] += sum(1 for i in common_b if vb[i] != va[i])
                        d["kept_before_only"] += sum(1 for i in ids_b if i not in ids_a)
                        d["kept_after_only"] += max(len(q["interp"]["objs"]) - len(ids_b), 0)
        d["runtime_observations"] = {"lookups_left_the_loaded_frames_unmodified": d["inputs_unchanged"] == d["timelines"]}
        return d


class C17(Prop):
    id = "C17"
    props_file = "Props/C17.v"
    # redundant tie (core.gen_tie): these functions, translated from the source on every run, equal the hand model for all inputs
    gen_tie_theorems = ['GenTie_get_now_frame', 'GenTie_get_now_frame_outside', 'GenTie_neighbour_search', 'GenTie_interpolate_object_list', 'GenTie_interpolate_list', 'GenTie_interpolate_list_outside', 'GenTie_interpolate_quaternion', 'GenTie_interpolate_quaternion_outside', 'GenTie_interpolate_state', 'GenTie_interpolate_state_outside', 'GenTie_interpolate_dynamic_object', 'GenTie_get_interpolated_now_frame', 'GenTieSrc_C17_get_now_frame_is_nearest_within_tol']
    extra_props_files = ["Props/C17Slerp.v"]
    # the slerp theorems are about Coq's axiomatised real numbers: exactly these standard-library axioms, for that file only
    allowed_axioms = {"Props/C17Slerp.v": ["ClassicalDedekindReals.sig_not_dec", "ClassicalDedekindReals.sig_forall_dec",
                                          "FunctionalExtensionality.functional_extensionality_dep", "Classical_Prop.classic"]}
    trusted_base_extra = ["Props/C17Slerp.v only: the standard library's real-number axioms ClassicalDedekindReals.sig_not_dec, "
                          "ClassicalDedekindReals.sig_forall_dec, FunctionalExtensionality.functional_extensionality_dep and "
                          "Classical_Prop.classic (excluded middle), as Print Assumptions reports them; Model/SlerpR.v is a reading of "
                          "pyquaternion 0.9.9 Quaternion.slerp (third-party code, not part of /repo), not executable and tied to the "
                          "implementation only through the numerical comparison with yaw_interp"]
    gen_files = []
    design_ref = "DESIGN.md section 4, C17"
    technique = ("Rocq proofs about an executable Gallina model of get_now_frame / get_interpolated_now_frame / "
                 "interpolate_ground_truth_frames / interpolate_object_list (Model/Lookup.v); in-Coq correspondence with the real "
                 "functions and manager.get_ground_truth_now_frame on generated time lines of real FrameGroundTruth/DynamicObject objects")
    level_text = ("Theorems (Props/C17.v, closed under the global context): for ANY frame list the plain lookup returns the first frame at "
                  "minimal |dt| iff that |dt| <= tolerance, else None; for time-ordered lists the interpolated lookup finds before = last "
                  "frame <= t and after = first frame > t (also before the first / on / after the last frame), gates each by |dt| <= "
                  "tolerance and returns interpolation / the one usable neighbour / None accordingly; the interpolated frame is stamped t, "
                  "paired objects sit at (1-a)p1 + a p2 of their map-frame positions with a=(t-t1)/(t2-t1) in [0,1), velocity likewise, "
                  "a = 0 reproduces the before frame exactly, uuids are before-ids then new after-ids, singletons are kept. Model and "
                  "implementation are compared inside Coq on every generated query. Run-time oracle only: answers do not depend on the number "
                  "type of the query, on string-spelled frame ids or on further transforms stored with the frames.")
    level_note = ("The rotation part (pyquaternion slerp: acos/sin) is not computable over Q: the yaw of the executable model is the shortest-arc "
                  "specification (wrap to (-1,1] pi-units, proved to be the unique short representative). Props/C17Slerp.v proves, over Coq's "
                  "real numbers (standard-library real-number axioms + excluded middle, named in the trusted base), that the slerp FORMULA "
                  "(sign flip, 0.9995 switch, sine formula) returns unit quaternions, reproduces both neighbours, lies on the great arc at "
                  "the proportional angle with total angle <= pi/2 in quaternion space (the shorter rotation), is independent of the inputs' "
                  "signs, and for yaw rotations equals that rational specification (C17_yaw_interp_is_slerp). What stays numerical is the "
                  "tie of the formula to the running pyquaternion code and binary64 rounding: the implementation is compared "
                  "with the specification numerically (1e-6 pi-units; pyquaternion replaces slerp by a normalised lerp below 3.6 deg, deviation <= 3.2e-7 "
                  "pi-units) and, for arbitrary 3-D ego rotations, against an independent exp/log shortest-arc formula in the oracle. "
                  "Exactly opposite orientations (non-unique shortest arc) are excluded from the generated inputs.")
    rule = ("per time line (1-30 frames quick / 1-40 thorough; real objects, k/8 lattice, integer us stamps, ids appearing/disappearing, "
            "yaw-only or general rational ego quaternions): queries before/on/next to/between/after frames with tolerances equal to each "
            "|dt| and +-1; object ids of which some are prefixes / substrings of others (a, ab, abc, ba), the common ids of two neighbours "
            "listed in different relative orders (counted); every 6th time line without velocities; every 6th with SOME objects lacking a "
            "velocity, so that a pair has a velocity on one side only (either side; oracle: anything but an exception); every 5th with the objects' frame ids spelled as strings (as the library "
            "leaves them on interpolated frames); two thirds with the transform list the loader attaches (ego2map, LIDAR_TOP->BASE_LINK, "
            "LIDAR_TOP->MAP, in the loader's order or sensor first); every 3rd query repeated with the same numbers as float / numpy integer "
            "(oracle: same answer); non-trivial = time line with >= 2 frames whose queries produced at least 3 different result kinds")
    assumptions = ["3-D DynamicObject ground truth (DynamicObject2D interpolation picks one of the two objects and is not modelled)",
                   "integer micro-second stamps and tolerances (as documented); velocity tuples present",
                   "objects rotate about z (yaw) in the generated inputs; ego rotations are arbitrary rational quaternions",
                   "interpolated lookup specified for time-ordered lists only (the plain lookup for any list)"]
    not_proved = ["the normalised-lerp branch of slerp (|dot| > 0.9995) is proved to stay BETWEEN the neighbours, not at the exactly proportional angle (deviation <= 3.2e-7 pi-units, validated)",
                  "binary64 evaluation of acos/sin/sqrt inside pyquaternion (validated numerically against the proved formula's specification)",
                  "float rounding of the linear interpolation (validated within 1e-9, bit-exact at alpha = 0 and for copied objects)",
                  "that deepcopy leaves every other attribute untouched beyond the observed ones (uuid, point number tag, size, time, frame)"]

    def correspondences(self):
        return [LookupCorr()]


READY = True
PROP = C17()
