"""C13 -- scene scores pool the frame results; frame evaluation is history-independent."""
import copy as _copy

from harness.lib.core import Corr, Prop, canon, llit, olit, qlit
from harness.props import ap_common as A
from harness.props import manager_common as MC

CRIT = [
    {"max_x_position_list": [30.0] * 4, "max_y_position_list": [30.0] * 4},
    {"max_x_position_list": [100.0] * 4, "max_y_position_list": [100.0] * 4},
    {"max_distance_list": [35.0] * 4, "min_distance_list": [3.0] * 4},
    {"max_x_position_list": [12.5, 30.0, 20.0, 30.0], "max_y_position_list": [30.0, 12.5, 20.0, 30.0]},
]
PF = [1.0, 2.0, 0.5]
# classification2d (ROI-less 2D objects paired by uuid): the critical filter / pass-fail variants are confidence thresholds
CRIT_2D = [{}, {"confidence_threshold_list": [0.5] * 4}, {"confidence_threshold_list": [0.25, 0.75, 0.5, 0.0]},
           {"confidence_threshold_list": [0.0] * 4}]
PF_2D = [None, [0.5] * 4, [0.125] * 4]
NO_METRIC_KEYS = dict(center_distance_thresholds=None, plane_distance_thresholds=None, iou_2d_thresholds=None, iou_3d_thresholds=None)


def is_2d(case):
    return case["task"] == "classification2d"


def model_ops(case):
    """the calls the Coq state machine knows (add / query); "interp" calls are read-only disturbances in between"""
    return [o for o in case["ops"] if o[0] != "interp"]


def make_mgr(case, tag):
    """a real manager for the case's task (3D detection / tracking on the bundled fixture as before; classification2d on the fixture
    with a camera frame; fp_validation without a dataset, whose category names the FP-validation loader rejects)"""
    task = case["task"]
    if task == "classification2d":
        return MC.make_manager(task, "cam_front", tag=tag, min_point_numbers=None, max_x_position=None, max_y_position=None, **NO_METRIC_KEYS)
    if task == "fp_validation":
        from perception_eval.config import PerceptionEvaluationConfig
        from perception_eval.manager import PerceptionEvaluationManager

        cfg = MC.base_config(task, **NO_METRIC_KEYS)
        return PerceptionEvaluationManager(PerceptionEvaluationConfig(dataset_paths=[], frame_id=case["frame"], result_root_directory=MC.tmp_dir(tag),
                                                                      evaluation_config_dict=cfg, load_raw_data=False))
    return MC.make_manager(task, case["frame"], tag=tag)


def make_cfgs(mgr, case, c, p):
    if is_2d(case):
        from perception_eval.evaluation.result.perception_frame_config import PerceptionPassFailConfig

        return (MC.critical_cfg(mgr, CRIT_2D[c]),
                PerceptionPassFailConfig(evaluator_config=mgr.evaluator_config, target_labels=list(MC.TARGETS), matching_threshold_list=None,
                                         confidence_threshold_list=None if PF_2D[p] is None else list(PF_2D[p])))
    return MC.critical_cfg(mgr, CRIT[c]), MC.passfail_cfg(mgr, PF[p])


def cfg_fp(cfg):
    """everything evaluation reads from a CriticalObjectFilterConfig / PerceptionPassFailConfig"""
    plain = lambda v: [getattr(x, "value", x) for x in v] if isinstance(v, (list, tuple)) else v
    out = {"target_labels": plain(cfg.target_labels)}
    for k in ("max_x_position_list", "max_y_position_list", "max_distance_list", "min_distance_list", "min_point_numbers",
              "confidence_threshold_list", "target_uuids", "ignore_attributes", "matching_threshold_list"):
        if hasattr(cfg, k):
            out[k] = plain(getattr(cfg, k))
    if hasattr(cfg, "filtering_params"):
        out["filtering_params"] = {k: plain(v) for k, v in cfg.filtering_params.items()}
    return out


def uuid2d(u):
    """ground truth g3 and its estimate t3 share the uuid 3 in the 2D rendering (classification pairs by uuid)"""
    return u[1:] if u and u[0] in "gt" else u


def make_obj2d(spec, t):
    from perception_eval.common.object2d import DynamicObject2D
    from perception_eval.common.schema import FrameID

    conf = spec.get("conf")
    return DynamicObject2D(t, FrameID.CAM_FRONT, 1.0 if conf is None else conf, MC.label_of(spec["label"]), None, uuid2d(spec.get("uuid")))


def deep_fp(o):
    """every attribute of a DynamicObject that evaluation could change"""
    if type(o).__name__ == "DynamicObject2D":
        return [o.uuid, o.semantic_label.label.value, o.semantic_label.name, list(o.semantic_label.attributes), o.semantic_score,
                None if o.roi is None else [list(o.roi.offset), list(o.roi.size)], o.frame_id.value, o.unix_time,
                None if o.visibility is None else o.visibility.value]
    st = o.state
    return [o.uuid, o.semantic_label.label.value, o.semantic_label.name, list(o.semantic_label.attributes), o.semantic_score,
            [float(x) for x in st.position], [float(x) for x in st.orientation.q], [float(x) for x in st.size], o.pointcloud_num, o.frame_id.value, o.unix_time]


def transforms_fp(fgt):
    """the frame's transform registry (keys in order, matrix entries) and its raw data: evaluation shares them with the copy it works on"""
    tf = [[k.src.value, k.dst.value, [float(x) for x in m.matrix.flatten()], [float(x) for x in m.position]] for k, m in fgt.transforms.items()]
    raw = fgt.raw_data
    return [tf, None if raw is None else {k: [list(v.shape), [float(x) for x in v.flatten()]] for k, v in raw.items()}]


def frame_fp(fgt):
    return [fgt.unix_time, fgt.frame_name, [deep_fp(o) for o in fgt.objects], transforms_fp(fgt)]


def cls_counts(ms):
    """per classification score and target label: [num_ground_truth, results, TP, FP]"""
    return [[[a.num_ground_truth, a.objects_results_num, a.num_tp, a.num_fp] for a in c.accuracies] for c in ms.classification_scores]


def trk_counts(ms):
    """per tracking score and target label: [id_switch, tp, fp, num_ground_truth] (the additive CLEAR counters)"""
    return [[[int(c.id_switch), float(c.tp), float(c.fp), int(c.num_ground_truth)] for c in t.clears] for t in ms.tracking_scores]


def core_fp(r):
    pf = r.pass_fail_result
    pair = lambda x: [x.estimated_object.uuid, x.ground_truth_object.uuid if x.ground_truth_object is not None else None]
    return {
        "results": [pair(x) for x in r.object_results],
        "tp": [pair(x) for x in pf.tp_object_results], "fp": [pair(x) for x in pf.fp_object_results],
        "fn": [g.uuid for g in pf.fn_objects], "tn": [g.uuid for g in pf.tn_objects],
        "success_fail": [pf.get_num_success(), pf.get_num_fail()],
        "maps": MC.score_fingerprint(r.metrics_score)["maps"], "num_gt": r.metrics_score.num_ground_truth,
        "cls": [cls_counts(r.metrics_score), [[MC.num(x) for x in c._summarize()] for c in r.metrics_score.classification_scores]],
        "frame_name": r.frame_name, "unix_time": r.unix_time,
    }


def track_fp(r):
    return MC.score_fingerprint(r.metrics_score)["tracking"]


class Interner:
    def __init__(self):
        self.ids = {}

    def __call__(self, x):
        k = canon(x)
        if k not in self.ids:
            self.ids[k] = len(self.ids) + 1
        return self.ids[k]


def do_add(mgr, dataset, case, op, est_lists, cfg_cache=None, frame=None):
    """cfg_cache (the long-lived manager only): ONE CriticalObjectFilterConfig per filter variant and ONE PerceptionPassFailConfig per
    threshold variant are reused for every frame, as a caller does; fresh managers get fresh configuration objects.
    frame: the ground-truth frame object to hand over (default: the dataset's i-th frame)"""
    _, i, e, c, p = op
    if i >= len(dataset):
        return None
    fr = case["frames"][i]
    ests = est_lists[(i, e)]
    if cfg_cache is None:
        cc, pf = make_cfgs(mgr, case, c, p)
    else:
        if ("c", c) not in cfg_cache or ("p", p) not in cfg_cache:
            cc, pf = make_cfgs(mgr, case, c, p)
            cfg_cache.setdefault(("c", c), cc)
            cfg_cache.setdefault(("p", p), pf)
        cc, pf = cfg_cache[("c", c)], cfg_cache[("p", p)]
    return mgr.add_frame_result(fr["t"], dataset[i] if frame is None else frame, ests, cc, pf)


def build_dataset(case, raw=False):
    if is_2d(case):
        from perception_eval.common.dataset import FrameGroundTruth

        out = [FrameGroundTruth(fr["t"], fr.get("name", str(fr["index"])), [make_obj2d(g, fr["t"]) for g in fr["gts"]]) for fr in case["frames"]]
    else:
        out = [MC.make_gt_frame(fr, case["frame"], name=fr.get("name")) for fr in case["frames"]]
    if raw:     # sensor data as a loader attaches it (load_raw_data=True); evaluation has no business with it
        import numpy as np

        for k, f in enumerate(out):
            f.raw_data = {"lidar": np.arange(8, dtype=float).reshape(2, 4) + k}
    return out


def build_estimates(case):
    out = {}
    for i, fr in enumerate(case["frames"]):
        for e, ests in enumerate(fr["est_variants"]):
            if is_2d(case):
                out[(i, e)] = [make_obj2d(x, fr["t"]) for x in ests]
            else:
                out[(i, e)] = MC.make_estimates({"ests": ests, "ego": fr.get("ego"), "t": fr["t"]}, case["frame"])
    return out


def gap_history(rng, variant):
    """a tracking history whose middle frame is EMPTY (or empty for the labels of the tracks): frame 2 shows the objects of frame 0
    again with one estimate displaced beyond every threshold and two identities swapped.  Scored against its real predecessor (the empty
    frame) frame 2 has a false positive and no identity switch; scored against frame 0 it inherits frame 0's true positive / counts
    switches -- so skipping, reordering or mis-pairing frames in the scene score shows"""
    f0 = MC.gen_frame(rng, 0, n_gt=rng.randint(2, 5))
    for g in f0["gts"]:
        g["label"] = rng.choice(MC.TARGETS[:2])
    f0["ests"] = [{"label": g["label"], "pos": list(g["pos"]), "size": list(g["size"]), "yaw_cs": g["yaw_cs"], "conf": None, "uuid": "t" + g["uuid"][1:]}
                  for g in f0["gts"]]
    f1 = MC.gen_frame(rng, 1, n_gt=0)
    if rng.random() < 0.5:
        f1["ests"] = []
    else:
        for e in f1["ests"]:
            e["label"] = MC.TARGETS[3]
    f2 = _copy.deepcopy(f0)
    f2.update(index=2, t=f1["t"] + 100000, ego=MC.gen_frame(rng, 2, n_gt=0)["ego"])
    k = rng.randrange(len(f2["ests"]))
    f2["ests"][k]["pos"] = [f2["ests"][k]["pos"][0] + 3.0, f2["ests"][k]["pos"][1] + 4.0, f2["ests"][k]["pos"][2]]
    same = [(a, b) for a in range(len(f2["ests"])) for b in range(a + 1, len(f2["ests"])) if f2["ests"][a]["label"] == f2["ests"][b]["label"] and k not in (a, b)]
    if same:
        a, b = rng.choice(same)
        f2["ests"][a]["uuid"], f2["ests"][b]["uuid"] = f2["ests"][b]["uuid"], f2["ests"][a]["uuid"]
    frames = [f0, f1, f2]
    for fr in frames:
        MC.assign_confidences([fr], rng)
        v0 = fr.pop("ests")
        fr["est_variants"] = [v0, [dict(e) for e in v0[: max(0, len(v0) - 1)]]]
    c, p = 1, rng.randrange(len(PF))
    ops = [["add", 0, 0, c, p], ["add", 1, 0, c, p], ["add", 2, 0, c, p], ["query"]]
    if variant == 2:
        ops += [["add", 0, 0, c, p], ["add", 2, 0, c, p], ["query"]]
    elif variant == 1:      # the later frame is evaluated BEFORE the earlier one: the predecessor is the frame added before, not the older one
        ops = [["add", 2, 0, c, p], ["add", 0, 0, c, p], ["query"], ["add", 1, 0, c, p], ["add", 2, 0, c, p], ["query"]]
    return frames, ops


class HistoryCorr(Corr):
    name = "history"
    header = ("From Coq Require Import List Bool Arith.\nFrom PE Require Import Base.CaseUtil Model.Manager.\n"
              "Import ListNotations.\nOpen Scope nat_scope.\n")
    requires = ["Model/Manager.vo", "Base/CaseUtil.vo"]
    shard = 40
    parallel_min = 4

    def cases(self, tier, rng):
        out = []
        n = 36 if tier == "quick" else 675
        for ci in range(n):
            # of every 9 histories: 4 detection, 3 tracking, 1 classification2d (uuid pairing, ClassificationMetricsScore), 1 fp_validation
            task = ("detection", "tracking", "detection", "tracking", "classification2d", "detection", "tracking", "fp_validation", "detection")[ci % 9]
            frame = "map" if (task == "tracking" or ci % 4 == 2) else "base_link"
            if task == "classification2d":
                frame = "cam_front"
            K = rng.randint(1, 4)
            frames = []
            track_label = {}
            for i in range(K):
                # every third history: a fifth of the estimates next to a ground truth is labelled unknown (not a target label)
                fr = MC.gen_frame(rng, i, fp_gt_prob=0.5) if task == "fp_validation" else MC.gen_frame(rng, i, unknown_est_prob=0.2 if ci % 3 == 1 else 0.0)
                if task == "tracking" and ci % 9 != 1:
                    # real tracks: ground truth g<j> keeps ONE label through the history (and the estimate that agreed with it still agrees), so
                    # that "same pair as in the preceding frame" and identity switches are common and the score of a frame / of the scene
                    # really depends on which frame precedes which
                    for g in fr["gts"]:
                        old = g["label"]
                        g["label"] = track_label.setdefault(g["uuid"], old)
                        for e in fr["ests"]:
                            if e["uuid"] == "t" + g["uuid"][1:] and e["label"] == old:
                                e["label"] = g["label"]
                MC.assign_confidences([fr], rng, distinct=(ci % 5 != 0))
                v0 = fr.pop("ests")
                v1 = [dict(e) for e in v0[: max(0, len(v0) - 1)]]
                rng.shuffle(v1)
                if task == "tracking" and i >= 1 and len(v0) >= 2 and rng.random() < 0.9:
                    # tracked estimates change identity between frames (swap / new id), so that the tracking score of a frame really
                    # depends on WHICH evaluation preceded it
                    a, b = rng.sample(range(len(v0)), 2)
                    if rng.random() < 0.5:
                        v0[a]["uuid"], v0[b]["uuid"] = v0[b]["uuid"], v0[a]["uuid"]
                    else:
                        v0[a]["uuid"] = f"n{i}{a}"
                    v1 = [dict(e) for e in v0[: max(0, len(v0) - 1)]]
                    rng.shuffle(v1)
                fr["est_variants"] = [v0, v1]
                frames.append(fr)
            ops = []
            for _ in range(rng.randint(3, 10)):
                if rng.random() < 0.2:
                    ops.append(["query"])
                else:
                    i = rng.randrange(K) if rng.random() < 0.95 else K  # occasionally the same frame again and again
                    if ops and ops[-1][0] == "add" and rng.random() < 0.3:
                        i = ops[-1][1]  # re-evaluate the same ground-truth frame, usually with another filter
                    ops.append(["add", i, rng.randrange(2), rng.randrange(len(CRIT)), rng.randrange(len(PF))])
            ops = [o for o in ops if o[0] == "query" or o[1] < K]
            if frame == "map" and K >= 2 and rng.random() < 0.6:
                # a frame interpolated between dataset frames i and i+1 is requested (and evaluated elsewhere) in the middle of the history
                ops.insert(rng.randrange(len(ops) + 1), ["interp", rng.randrange(K - 1)])
            ops.append(["query"])
            if task == "tracking" and ci % 9 == 3:
                frames, ops = gap_history(rng, (ci // 9) % 3)
            elif K >= 2 and ci % 4 == 1:
                # frames that carry their predecessor's NAME (what interpolated ground truth produces): a frame is identified by its content,
                # never by its name
                for i in range(1, K):
                    if rng.random() < 0.7:
                        frames[i]["name"] = frames[i - 1].get("name", str(frames[i - 1]["index"]))
            out.append({"task": task, "frame": frame, "frames": frames, "ops": ops})
        return out

    def run_impl(self, case):
        try:
            return self._run(case)
        finally:
            MC.cleanup_tmp()

    def _fresh(self, case):
        return make_mgr(case, "fresh"), build_dataset(case), build_estimates(case)

    @staticmethod
    def _interp(mgr, dataset, case, op):
        """ask the long-lived manager for a frame interpolated between dataset frames i and i+1 and evaluate that derived frame on a
        throw-away manager: neither may write into the dataset frames it was derived from (checked by the dataset fingerprints)"""
        i = op[1]
        fr = case["frames"][i]
        t_mid = fr["t"] + 50000
        f = mgr.get_ground_truth_now_frame(t_mid, interpolate_ground_truth=True)
        if f is None or any(f is d for d in dataset):
            return False
        tmp = make_mgr(case, "interp")
        ests = MC.make_estimates({"ests": fr["est_variants"][0], "ego": fr.get("ego"), "t": t_mid}, case["frame"])
        cc, pf = make_cfgs(tmp, case, 1, 0)
        tmp.add_frame_result(t_mid, f, ests, cc, pf)
        return True

    def _run(self, case):
        I = {k: Interner() for k in ("frame", "core", "track", "scene", "ests", "cfg")}
        mgr = make_mgr(case, "long")
        dataset = build_dataset(case, raw=True)
        mgr.ground_truth_frames = dataset
        est_lists = build_estimates(case)
        cfg_cache, cfg_fresh = {}, {}
        lookup_ok, interp_done = True, 0
        counts = []         # per add / query: the additive counters of the frame's / the scene's MetricsScore (oracle only)
        ds_before = [I["frame"](frame_fp(f)) for f in dataset]
        ds_identity = [[id(o) for o in f.objects] for f in dataset]
        est_before = {k: [deep_fp(o) for o in v] for k, v in est_lists.items()}
        est_identity = {k: [id(o) for o in v] for k, v in est_lists.items()}
        answers = []
        ops_ids = []
        gt_counts = []      # per call: add -> [total critical GT, per target label]; query -> the scene's [num_gt, per-label counts of the first Map]
        for op in case["ops"]:
            if op[0] == "interp":
                interp_done += self._interp(mgr, dataset, case, op)
            elif op[0] == "query":
                sc = mgr.get_scene_result()
                fp_ = MC.score_fingerprint(sc)
                fp_["cls"] = [cls_counts(sc), [[MC.num(x) for x in c._summarize()] for c in sc.classification_scores]]
                answers.append([2, I["scene"](fp_)])
                ops_ids.append(None)
                gt_counts.append([fp_["num_gt"], fp_["maps"][0]["ngt"] if fp_["maps"] else None,
                                  [c[5] for c in fp_["tracking"][0]["clears"]] if fp_["tracking"] else None])
                counts.append({"num_gt": sc.num_ground_truth, "trk": trk_counts(sc), "cls": cls_counts(sc)})
            else:
                # the frame is obtained the way a caller obtains it; the configuration objects are reused across frames
                fobj = mgr.get_ground_truth_now_frame(case["frames"][op[1]]["t"])
                lookup_ok = lookup_ok and fobj is not None and frame_fp(fobj) == frame_fp(dataset[op[1]])
                for kk in (("c", op[3]), ("p", op[4])):
                    if kk not in cfg_cache:
                        cc_, pf_ = make_cfgs(mgr, case, op[3], op[4])
                        cfg_fresh[kk] = cfg_fp(cc_ if kk[0] == "c" else pf_)
                r = do_add(mgr, mgr.ground_truth_frames, case, op, est_lists, cfg_cache, frame=fobj)
                answers.append([1, I["core"](core_fp(r)), I["track"](track_fp(r))])
                ops_ids.append((op[1], I["ests"]([op[1], op[2]]), I["cfg"]([op[3], op[4]])))
                labs = [g.semantic_label.label.value for g in r.frame_ground_truth.objects]
                gt_counts.append([len(labs), [sum(1 for x in labs if x == t) for t in MC.TARGETS]])
                counts.append({"num_gt": r.metrics_score.num_ground_truth, "trk": trk_counts(r.metrics_score), "cls": cls_counts(r.metrics_score)})
        cfgs_changed = sorted(f"{'critical filter' if k[0] == 'c' else 'pass/fail'} config #{k[1]}" for k, v in cfg_cache.items() if cfg_fp(v) != cfg_fresh[k])
        ds_after = [I["frame"](frame_fp(f)) for f in dataset]
        ds_same_objects = ds_identity == [[id(o) for o in f.objects] for f in dataset] and all(a is b for a, b in zip(dataset, mgr.ground_truth_frames))
        ests_unchanged = all(est_before[k] == [deep_fp(o) for o in v] and est_identity[k] == [id(o) for o in v] for k, v in est_lists.items())
        # the specification's functions, measured on FRESH managers with FRESH objects
        gt, wt, tt, st = [], [], [], []
        seen_g, seen_t, seen_s = set(), set(), set()
        prev = None
        adds_so_far = []
        for op, oid in zip(model_ops(case), ops_ids):
            if op[0] == "query":
                key = tuple(map(tuple, adds_so_far))
                if key not in seen_s:
                    seen_s.add(key)
                    m2, d2, e2 = self._fresh(case)
                    core_ids = []
                    for a in adds_so_far:
                        r = do_add(m2, d2, case, a, e2)
                        core_ids.append(I["core"](core_fp(r)))
                    sc2 = m2.get_scene_result()
                    fp2 = MC.score_fingerprint(sc2)
                    fp2["cls"] = [cls_counts(sc2), [[MC.num(x) for x in c._summarize()] for c in sc2.classification_scores]]
                    st.append((core_ids, I["scene"](fp2)))
                continue
            gkey = tuple(op[1:])
            if gkey not in seen_g:
                seen_g.add(gkey)
                m2, d2, e2 = self._fresh(case)
                r = do_add(m2, d2, case, op, e2)
                cid = I["core"](core_fp(r))
                fid = ds_before[op[1]]
                gt.append((fid, oid[1], oid[2], cid))
                wt.append((fid, oid[1], oid[2], I["frame"]([d2[op[1]].unix_time, d2[op[1]].frame_name, [deep_fp(o) for o in r.frame_ground_truth.objects],
                                                            transforms_fp(r.frame_ground_truth)])))
                if ("first", gkey) not in seen_t:
                    seen_t.add(("first", gkey))
                    tt.append((0, cid, I["track"](track_fp(r))))
            tkey = (tuple(prev[1:]) if prev else None, gkey)
            if prev is not None and tkey not in seen_t:
                seen_t.add(tkey)
                m2, d2, e2 = self._fresh(case)
                r0 = do_add(m2, d2, case, prev, e2)
                r1 = do_add(m2, d2, case, op, e2)
                tt.append((I["core"](core_fp(r0)), I["core"](core_fp(r1)), I["track"](track_fp(r1))))
            prev = op
            adds_so_far.append(op)
        return {"ds_before": ds_before, "ds_after": ds_after, "ds_same_objects": bool(ds_same_objects), "ests_unchanged": bool(ests_unchanged),
                "answers": answers, "ops_ids": ops_ids, "G": gt, "W": wt, "T": tt, "S": st, "gt_counts": gt_counts,
                "n_results": [len(a) for a in answers], "counts": counts, "cfgs_changed": cfgs_changed, "lookup_ok": bool(lookup_ok),
                "interp_done": interp_done}

    @staticmethod
    def _tbl(rows):
        return llit(["(" + ", ".join(str(x) for x in r) + ")" for r in rows])

    def coq_term(self, case, obs):
        ops = []
        for op, oid in zip(model_ops(case), obs["ops_ids"]):
            ops.append("Query" if oid is None else f"(Add {oid[0]} {oid[1]} {oid[2]})")
        st = llit([f"({llit([str(c) for c in cs])}, {s})" for cs, s in obs["S"]])
        ans = llit([llit([str(x) for x in a]) for a in obs["answers"]])
        ok = "true" if (obs["ds_same_objects"] and obs["ests_unchanged"]) else "false"
        return (f"(check_history {self._tbl(obs['G'])} {self._tbl(obs['W'])} {self._tbl(obs['T'])} {st} "
                f"{llit([str(x) for x in obs['ds_before']])} {llit(ops)} {llit([str(x) for x in obs['ds_after']])} {ans} && {ok})%bool")

    def coq_debug(self, case, obs):
        ops = ["Query" if oid is None else f"(Add {oid[0]} {oid[1]} {oid[2]})" for oid in obs["ops_ids"]]
        st = llit([f"({llit([str(c) for c in cs])}, {s})" for cs, s in obs["S"]])
        return f"replay {self._tbl(obs['G'])} {self._tbl(obs['W'])} {self._tbl(obs['T'])} {st} {llit([str(x) for x in obs['ds_before']])} {llit(ops)}"

    def oracle(self, case, obs):
        if obs["ds_before"] != obs["ds_after"] or not obs["ds_same_objects"]:
            bad = [i for i, (a, b) in enumerate(zip(obs["ds_before"], obs["ds_after"])) if a != b]
            return f"the loaded dataset was modified by evaluation (ground-truth frames {bad} differ after the call sequence)"
        if not obs["ests_unchanged"]:
            return "the caller's estimate list was modified by add_frame_result"
        if obs.get("cfgs_changed"):
            return f"evaluation modified a configuration object the caller reuses across frames: {obs['cfgs_changed']}"
        if not obs.get("lookup_ok", True):
            return "get_ground_truth_now_frame(t) did not hand out the dataset frame stamped t"
        m = self._additive(case, obs)
        if m:
            return m
        G = {(a, b, c): v for a, b, c, v in obs["G"]}
        fid = obs["ds_before"]
        T = {(a, b): v for a, b, v in obs["T"]}
        S = {tuple(cs): v for cs, v in obs["S"]}
        prev_core = 0
        cores = []
        # ground-truth counts add up over ALL frame results held by the manager (a frame evaluated twice counts twice, like its results)
        per_label = [0] * len(MC.TARGETS)
        for k, (oid, cnt) in enumerate(zip(obs["ops_ids"], obs["gt_counts"])):
            if oid is not None:
                per_label = [a + b for a, b in zip(per_label, cnt[1])]
                continue
            if case["task"] != "fp_validation" and cnt[0] != sum(per_label):      # FP validation has no metrics, hence no count
                return (f"call {k} (get_scene_result): MetricsScore.num_ground_truth = {cnt[0]} but the frame results added so far hold "
                        f"{sum(per_label)} ground truths of the target labels")
            for what, got in (("detection", cnt[1]), ("tracking", cnt[2])):
                if got is not None and list(got) != per_label:
                    return (f"call {k} (get_scene_result): per-label {what} ground-truth counts {list(got)} are not the sums {per_label} over the "
                            f"frame results added so far")
        for k, (op, oid, ans) in enumerate(zip(model_ops(case), obs["ops_ids"], obs["answers"])):
            if oid is None:
                if ans[1] != S[tuple(cores)]:
                    return f"call {k} (get_scene_result) differs from the scene result of a fresh manager given the same evaluations"
                continue
            core = G[(fid[oid[0]], oid[1], oid[2])]
            if ans[1] != core:
                return (f"call {k} add_frame_result(frame {op[1]}, estimates #{op[2]}, critical #{op[3]}, pass/fail #{op[4]}) gives a different "
                        f"result than the same call on a fresh manager: the result depends on earlier evaluations")
            if ans[2] != T[(prev_core, core)]:
                return f"call {k}: tracking scores differ from those of a fresh manager given only the preceding evaluation and this one"
            prev_core = core
            cores.append(core)
        return None

    @staticmethod
    def _additive(case, obs):
        """counting clauses that need no reference run: a frame's MetricsScore.num_ground_truth is the number of its critical ground truths
        of the target labels; the scene's additive counters (tracking: id switches, TP, FP; classification: ground truths, results, TP,
        FP; per score and label) are the SUMS of the counters of the frame results held, each frame counted against its predecessor"""
        if "counts" not in obs:
            return None
        has_metrics = case["task"] != "fp_validation"
        tot_trk, tot_cls = None, None
        add = lambda tot, new: new if tot is None else [[[a + b for a, b in zip(x, y)] for x, y in zip(s0, s1)] for s0, s1 in zip(tot, new)]
        for k, (oid, cnt, c) in enumerate(zip(obs["ops_ids"], obs["gt_counts"], obs["counts"])):
            if oid is not None:
                if has_metrics and c["num_gt"] != sum(cnt[1]):
                    return (f"call {k} (add_frame_result): the frame's MetricsScore.num_ground_truth = {c['num_gt']} but the frame holds "
                            f"{sum(cnt[1])} critical ground truths of the target labels ({cnt[1]})")
                tot_trk, tot_cls = add(tot_trk, c["trk"]), add(tot_cls, c["cls"])
                continue
            for what, names, got, want in (("tracking", "[id_switch, tp, fp, num_ground_truth]", c["trk"], tot_trk),
                                           ("classification", "[num_ground_truth, results, tp, fp]", c["cls"], tot_cls)):
                if want is not None and got != want:
                    return (f"call {k} (get_scene_result): scene {what} counters {names} per score and label {got} are not the sums {want} "
                            f"of the counters of the frame results added so far")
        return None

    def nontrivial(self, case, obs):
        adds = [o for o in case["ops"] if o[0] == "add"]
        return len(adds) >= 2 and len({o[1] for o in adds}) < len(adds)  # some ground-truth frame evaluated more than once

    def describe(self, case, obs):
        return {"case": {"task": case["task"], "frame": case["frame"], "n_frames": len(case["frames"]), "ops": case["ops"],
                         "objects_per_frame": [[len(f["gts"]), len(f["est_variants"][0])] for f in case["frames"]]},
                "observed": {"answers": obs["answers"], "dataset_ids_before_after": [obs["ds_before"], obs["ds_after"]]}}

    def distribution(self, cases, obs):
        d = {"tasks": {}, "frames": {}, "ops": 0, "queries": 0, "repeated_frame_evaluations": 0, "same_frame_other_filter": 0,
             "interpolated_frame_requests": sum(o.get("interp_done", 0) for o in obs),
             "config_objects_reused_across_calls": 0, "scene_tracking_counter_sums_checked": 0, "scene_classification_counter_sums_checked": 0,
             "histories_with_frames_sharing_a_name": sum(1 for c in cases if any("name" in f for f in c["frames"])),
             "tracking_histories_with_an_empty_middle_frame": sum(1 for c in cases if c["task"] == "tracking" and len(c["frames"]) == 3
                                                                  and not c["frames"][1]["gts"] and c["frames"][2]["gts"] == c["frames"][0]["gts"])}
        for c, o in zip(cases, obs):
            adds = [x for x in c["ops"] if x[0] == "add"]
            d["config_objects_reused_across_calls"] += (len(adds) - len({x[3] for x in adds})) + (len(adds) - len({x[4] for x in adds}))
            for oid, cn in zip(o.get("ops_ids", []), o.get("counts", [])):
                if oid is None and adds:
                    d["scene_tracking_counter_sums_checked"] += bool(cn["trk"])
                    d["scene_classification_counter_sums_checked"] += bool(cn["cls"])
        for c in cases:
            d["tasks"][c["task"]] = d["tasks"].get(c["task"], 0) + 1
            d["frames"][c["frame"]] = d["frames"].get(c["frame"], 0) + 1
            d["ops"] += len(c["ops"])
            d["queries"] += sum(o[0] == "query" for o in c["ops"])
            seen = {}
            for o in c["ops"]:
                if o[0] == "add":
                    if o[1] in seen:
                        d["repeated_frame_evaluations"] += 1
                        d["same_frame_other_filter"] += seen[o[1]] != o[3]
                    seen[o[1]] = o[3]
        return d


class PoolingCorr(Corr):
    name = "scene_pooling"
    header = ("From Coq Require Import List Bool ZArith.\nFrom PE Require Import Base.CaseUtil Model.AP.\n"
              "Import ListNotations.\nOpen Scope Q_scope.\n")
    requires = ["Model/AP.vo", "Base/CaseUtil.vo"]
    shard = 20
    parallel_min = 4

    def cases(self, tier, rng):
        out = []
        n = 40 if tier == "quick" else 400
        for ci in range(n):
            K = rng.randint(1, 5) if ci % 8 == 0 else rng.randint(3, 6)      # pooling needs several frames (one-frame scenes stay, rarely)
            # every other scene: a fifth of the estimates next to a ground truth is labelled unknown -- not a target label, so the result
            # is pooled under the label of the ground truth it is matched to (or dropped when it has none)
            frames = [MC.gen_frame(rng, i, unknown_est_prob=0.2 if ci % 2 else 0.0) for i in range(K)]
            MC.assign_confidences(frames, rng, distinct=(ci % 4 != 0))
            order2 = list(reversed(range(K)))
            if K >= 3 and ci % 2:         # any other order must do, not only the reversed one
                while order2 in (list(range(K)), list(reversed(range(K)))):
                    rng.shuffle(order2)
            out.append({"frame": "map" if ci % 3 == 0 else "base_link", "frames": frames, "crit": rng.randrange(len(CRIT)), "pf": rng.randrange(len(PF)),
                        "distinct": ci % 4 != 0, "order2": order2})
        return out

    def run_impl(self, case):
        try:
            return self._run(case)
        finally:
            MC.cleanup_tmp()

    def _scene(self, case, order):
        mgr = MC.make_manager("detection", case["frame"], tag="pool")
        for i in order:
            fr = case["frames"][i]
            mgr.add_frame_result(fr["t"], MC.make_gt_frame(fr, case["frame"]), MC.make_estimates(fr, case["frame"]),
                                 MC.critical_cfg(mgr, CRIT[case["crit"]]), MC.passfail_cfg(mgr, PF[case["pf"]]))
        return mgr, mgr.get_scene_result()

    def _run(self, case):
        from perception_eval.evaluation.metrics.detection.tp_metrics import TPMetricsAp, TPMetricsAph

        K = len(case["frames"])
        mgr, scene = self._scene(case, range(K))
        fp = MC.score_fingerprint(scene)
        per_mode = {}
        for mp in fp["maps"]:
            mode = A.MODE_BY_VALUE[mp["mode"]]
            if mode in per_mode:
                continue
            xs_ap, xs_aph, rid = [], [], 0
            for fr in mgr.frame_results:
                xs_ap.append(A.facts_of_results(fr.object_results, mode, TPMetricsAp(), rid))
                xs_aph.append(A.facts_of_results(fr.object_results, mode, TPMetricsAph(), rid))
                rid += len(fr.object_results)
            per_mode[mode] = {"ap": xs_ap, "aph": xs_aph}
        gts = [[g.semantic_label.label.value for g in fr.frame_ground_truth.objects] for fr in mgr.frame_results]
        frame_scores = [MC.score_fingerprint(fr.metrics_score) for fr in mgr.frame_results]
        # the same frames added in another order (reversed, or a random permutation for three and more frames)
        _, scene_rev = self._scene(case, case.get("order2") or list(reversed(range(K))))
        # a one-frame scene for the first frame
        m1, scene1 = self._scene(case, [0])
        return {"scene": fp, "facts": per_mode, "gts": gts, "frame_num_gt": [f["num_gt"] for f in frame_scores],
                "scene_rev": MC.score_fingerprint(scene_rev), "scene_one": MC.score_fingerprint(scene1),
                "frame_one": MC.score_fingerprint(m1.frame_results[0].metrics_score)}

    def coq_term(self, case, obs):
        tg = llit([f"{A.LABEL_NAT[x]}%nat" for x in MC.TARGETS])
        gl = llit([f"{A.LABEL_NAT[x]}%nat" for g in obs["gts"] for x in g])
        parts = []
        for mp in obs["scene"]["maps"]:
            mode = A.MODE_BY_VALUE[mp["mode"]]
            th = llit([qlit(x) for x in mp["thr"]])
            for kind, aps, m in (("ap", mp["aps"], mp["map"]), ("aph", mp["aphs"], mp["maph"])):
                xs = llit([A.lres_lit(f) for frame in obs["facts"][mode][kind] for f in frame])
                parts.append(f"check_map {A.mode_lit(mode)} {tg} {th} {gl} {xs} {llit([olit(a, qlit) for a in aps])} {olit(m, qlit)}")
        return "(" + " && ".join(parts) + ")%bool"

    def oracle(self, case, obs):
        sc = obs["scene"]
        n_held = sum(1 for g in obs["gts"] for x in g if x in MC.TARGETS)
        if sc["num_gt"] != n_held:
            return f"scene MetricsScore.num_ground_truth = {sc['num_gt']} but the frame results hold {n_held} ground truths of the target labels"
        for i, (g, n) in enumerate(zip(obs["gts"], obs["frame_num_gt"])):
            if n != sum(1 for x in g if x in MC.TARGETS):
                return f"frame {i}: MetricsScore.num_ground_truth = {n} but the frame holds {sum(1 for x in g if x in MC.TARGETS)} ground truths of the target labels"
        if sc["num_gt"] != sum(obs["frame_num_gt"]):
            return f"scene ground-truth count {sc['num_gt']} is not the sum {sum(obs['frame_num_gt'])} of the frame counts {obs['frame_num_gt']}"
        for mp in sc["maps"]:
            per_label = [sum(1 for g in obs["gts"] for x in g if x == lab) for lab in MC.TARGETS]
            if mp["ngt"] != per_label:
                return f"per-label scene ground-truth counts {mp['ngt']} differ from the summed frame counts {per_label}"
        # the scene-level per-label AP / APH = the interpolated area of the POOLED results of that label (heading weights as each frame's
        # own results carry them), recomputed here from the frame results with exact rationals
        for mp in sc["maps"]:
            mode = A.MODE_BY_VALUE[mp["mode"]]
            mx = A.MAXIMIZE[mode]
            for kind, unit, got_list in (("ap", True, mp["aps"]), ("aph", False, mp["aphs"])):
                pooled = [f for frame in obs["facts"][mode][kind] for f in frame]
                for li, (lab, thr) in enumerate(zip(MC.TARGETS, mp["thr"])):
                    fs = [f for f in pooled if (f["est_label"] == lab) or (f["est_label"] not in MC.TARGETS and f["gt_label"] == lab)]
                    num = sum(1 for g in obs["gts"] for x in g if x == lab)

                    def thr_of(f, lab=lab, thr=thr):
                        return thr if (f["gt_label"] if f["has_gt"] else f["est_label"]) == lab else None
                    ref, _, _ = A.ref_ap(fs, mx, num, unit, thr_of)
                    got = got_list[li] if li < len(got_list) else None
                    if (ref is None) != (got is None) or (ref is not None and abs(float(ref) - got) > 1e-9):
                        return (f"scene {kind.upper()}[{lab}] ({mp['mode']}, threshold {thr}) = {got} but the interpolated area over the pooled "
                                f"results of that label is {None if ref is None else float(ref)}")
        if obs["scene_one"]["maps"] != obs["frame_one"]["maps"]:
            return "a one-frame scene does not reproduce that frame's detection score"
        if case["distinct"]:
            for a, b in zip(sc["maps"], obs["scene_rev"]["maps"]):
                for k in ("aps", "aphs", "map", "maph"):
                    va = a[k] if isinstance(a[k], list) else [a[k]]
                    vb = b[k] if isinstance(b[k], list) else [b[k]]
                    for x, y in zip(va, vb):
                        if (x is None) != (y is None) or (x is not None and abs(x - y) > 1e-9):
                            return f"pooled {k} depends on the order in which frames were added ({a[k]} vs {b[k]}, mode {a['mode']}) although confidences are distinct"
        return None

    def nontrivial(self, case, obs):
        return len(case["frames"]) >= 2 and any(a is not None for mp in obs["scene"]["maps"] for a in mp["aps"])

    def distribution(self, cases, obs):
        unk = 0
        for o in obs:
            if isinstance(o, dict) and "facts" in o:
                for mode, kinds in o["facts"].items():
                    unk += sum(1 for frame in kinds["ap"] for f in frame if f["est_label"] not in MC.TARGETS and f["has_gt"])
                    break
        return {"second_order": {"reversed": sum(1 for c in cases if c.get("order2") == list(reversed(range(len(c["frames"]))))),
                                 "random_permutation": sum(1 for c in cases if c.get("order2") != list(reversed(range(len(c["frames"])))))},
                "frames": sum(len(c["frames"]) for c in cases),
                "pooled_results_with_an_unknown_estimate_matched_to_a_target_ground_truth": unk}

    def describe(self, case, obs):
        return {"case": {"frame": case["frame"], "n_frames": len(case["frames"]), "crit": case["crit"], "distinct_confidences": case["distinct"]},
                "observed": {"scene_maps": obs["scene"]["maps"][:2], "frame_num_gt": obs["frame_num_gt"]}}


class C13(Prop):
    id = "C13"
    props_file = "Props/C13.v"
    # redundant tie (core.gen_tie): these functions, translated from the source on every run, equal the hand model for all inputs
    gen_tie_theorems = ['GenTie__filter_objects', 'GenTie_add_frame_result', 'GenTie_add_frame_result_outside', 'GenTie_get_scene_result', 'GenTie_get_scene_result_outside', 'GenTie_get_ground_truth_now_frame', 'GenTie_get_ground_truth_now_frame_outside']
    extra_props_files = ["Props/C13Concrete.v"]
    design_ref = "DESIGN.md section 4, C13"
    technique = "Rocq proof (refinement of a manager state machine to a history-independent spec by induction over call sequences; permutation/sorting lemmas for pooling); in-Coq replay of call histories against the real manager"
    level_text = ("Theorems (Props/C13.v, closed under the global context): for EVERY sequence of add_frame_result/get_scene_result calls the manager state "
                  "machine (with the copy of the dataset frame the code makes) leaves the dataset unchanged and answers exactly like the specification, "
                  "where each frame result is a function of that frame's original ground truth, estimates and configs (tracking: plus the preceding "
                  "evaluation's results; scene: the frame results in order), and the no-copy variant is refuted; ground-truth counts add, pooled buckets "
                  "are the bucket of the pool, a one-frame scene equals the frame score, pooled AP is invariant under permuting frames when confidences are "
                  "distinct (and not otherwise). Tie: random call histories (repeated/permuted frames, different critical filters, interleaved scene queries, "
                  "detection and tracking, ego and map frame) are run on a real manager; G/T/Sc are measured on fresh managers and the history is replayed "
                  "in Coq; scene detection scores are recomputed by the AP model from the pooled object results; classification2d and fp_validation "
                  "managers are driven through the same histories; scene tracking / classification counters are checked to be the sums of the "
                  "frame counters, and MetricsScore.num_ground_truth is compared with an independent count at frame and scene level.")
    level_note = ("Frame evaluation itself is abstract in this model (G, T, Sc are Section variables; their content is C01/C03/C04/C05/C10). Trusted: Coq "
                  "kernel+vm_compute; the harness' fingerprints (uuids of paired objects, pass/fail lists, all metric numbers, deep attribute dump of "
                  "dataset objects, transform registries, raw data, reused configuration objects); fresh-manager runs as the reference for G/T/Sc. "
                  "Scene-level tracking scores: additive counters against the sums of the frame counters, MOTA/MOTP against fresh replays.")
    rule = ("random datasets of 1-4 frames (0-7 GT each, k/8 lattice, random ego pose), 2 estimate lists per frame, 4 critical filters x 3 pass/fail thresholds, "
            "3-10 calls incl. re-evaluation of the same frame and interleaved scene queries; non-trivial = some ground-truth frame evaluated more than once; "
            "of every 9 histories 4 are detection, 3 tracking, 1 classification2d (ROI-less 2D objects paired by uuid, confidence-threshold filter "
            "variants, ClassificationMetricsScore) and 1 fp_validation (half of the ground truths FP-labelled, no metrics: non-mutation and "
            "history-independence clauses only); on the long-lived manager the frame is fetched with get_ground_truth_now_frame(t), ONE critical "
            "filter / pass-fail configuration object per variant is reused across calls (fingerprinted before/after; fresh managers get fresh "
            "objects), the dataset frames carry raw_data and their fingerprint includes the transform registry and raw_data, and map-frame "
            "histories request a frame interpolated between two dataset frames and evaluate it on a throw-away manager in mid-history; counting "
            "oracles without a reference run: frame num_ground_truth = critical ground truths of the target labels, scene tracking counters "
            "(id switches, TP, FP per score and label) and scene classification counters (ground truths, results, TP, FP) = sums over the frame "
            "results held; pooling: the second order is the reversed one or (3+ frames, every other case) a random permutation, "
            "scene / frame num_ground_truth compared with the number of target-label ground truths the frame results hold; "
            "tracking histories keep ONE label per ground-truth track (8 of 9) so that same-pair / identity-switch events are common, and one "
            "tracking history in three is frame 0, an EMPTY frame, frame 0 again with a displaced estimate and swapped identities (the scene "
            "counters must be the sums of the frame counters, each frame scored against its real predecessor); "
            "in a quarter of the histories later frames carry their predecessor's frame NAME (as interpolated ground truth does); "
            "every other pooling scene and every third history label a fifth of the matched estimates 'unknown' (not a target label: the "
            "result is pooled under the label of its ground truth)")
    assumptions = ["frame evaluation abstracted (Section variables)", "fingerprints capture every observable of a frame result"]
    not_proved = ["the content of a single frame evaluation (other properties)", "scene-level CLEAR pooling is validated against fresh replays, its formula is C05",
                  "Python object aliasing beyond the dataset frames and estimate lists (runtime observation)"]

    def correspondences(self):
        return [HistoryCorr(), PoolingCorr()]

    def cleanup(self):
        MC.cleanup_tmp(all_pids=True)


READY = True
PROP = C13()
