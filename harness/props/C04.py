"""C04 -- AP, APH and mAP equal the interpolated precision-recall area, within [0,1]."""
import itertools
import math
from fractions import Fraction

from harness.lib.core import Corr, Prop, llit, olit, qlit
from harness.props import ap_common as A

HEADER = ("From Coq Require Import List Bool ZArith.\nFrom PE Require Import Base.CaseUtil Model.AP.\n"
          "Import ListNotations.\nOpen Scope Q_scope.\n")
TOL = 1e-9


def scene_from_kinds(kinds, tie=False):
    """A result list realising a given ranking: T = correct, H = correct with heading off by pi/2,
    F = wrong (no ground truth / too far), I = ground truth of a non-target label."""
    res = []
    n = len(kinds)
    for i, k in enumerate(kinds):
        conf = 0.5 if tie else (n - i) / 64 + 0.25
        base = {"label": "car", "pos": [8.0 * i, 0.0, 0.0], "size": [2.0, 4.0, 1.5], "yaw": 0.0}
        est = dict(base, conf=conf)
        if k == "T":
            gt = dict(base)
        elif k == "H":
            gt = dict(base, yaw=math.pi / 2)
        elif k == "F":
            gt = None if i % 2 == 0 else dict(base, pos=[8.0 * i + 30.0, 40.0, 0.0])
        else:
            gt = dict(base, label="pedestrian")
            est = dict(est, label="pedestrian")
        res.append({"est": est, "gt": gt})
    return {"policy": "DEFAULT", "results": res}


def doc_label_ok(policy, el, gl):
    """MatchingLabelPolicy as documented, on the label NAMES the scene was generated with (not is_label_correct)"""
    if gl is None:
        return False
    if gl == "false_positive" or policy == "ALLOW_ANY":
        return True
    if policy == "ALLOW_UNKNOWN":
        return el == gl or el == "unknown"
    return el == gl


def doc_facts(case, fs):
    """the facts with label compatibility and the label's threshold stated from the CASE (scene policy and label names, target list and
    threshold list: the threshold of a result is the entry at the position of its ground truth's label -- the estimate's label without
    ground truth -- in the target list), independent of is_label_correct / get_label_threshold"""
    out = []
    for f in fs:
        lab = f["gt_label"] if f["has_gt"] else f["est_label"]
        thr = case["thresholds"][case["targets"].index(lab)] if lab in case["targets"] else None
        out.append(dict(f, lab_ok=doc_label_ok(case["scene"]["policy"], f["est_label"], f["gt_label"]), thr=thr))
    return out


def facts_disagree(case, fs):
    for f in fs:
        # the APH weight of a result with ground truth is 1 - d/pi, d the smallest difference of the two YAW angles (tilted boxes included)
        if f.get("weight_is_heading") and f.get("weight_ref") is not None and f["has_gt"] and abs(f["weight"] - f["weight_ref"]) > 1e-9:
            return (f"result {f['rid']}: APH weight {f['weight']} but the heading agreement 1 - d/pi of the two yaw angles is {f['weight_ref']}")
    for f, d in zip(fs, doc_facts(case, fs)):
        if bool(f["lab_ok"]) != d["lab_ok"]:
            return (f"result {f['rid']}: is_label_correct = {f['lab_ok']} for estimate label {f['est_label']} / ground-truth label {f['gt_label']} "
                    f"under {case['scene']['policy']} (documented: {d['lab_ok']})")
        if f["thr"] != d["thr"]:
            return (f"result {f['rid']}: get_label_threshold = {f['thr']} for label {f['gt_label'] if f['has_gt'] else f['est_label']} with targets "
                    f"{case['targets']} / thresholds {case['thresholds']} (documented: {d['thr']})")
    return None


class ApCorr(Corr):
    name = "ap"
    header = HEADER
    requires = ["Model/AP.vo"]
    shard = 150

    def cases(self, tier, rng):
        out = []
        # exhaustive stream: every ranking over {T, H, F, I} up to a length, several ground-truth counts
        maxlen = 4 if tier == "quick" else 6
        for n in range(0, maxlen + 1):
            for kinds in itertools.product("THFI", repeat=n):
                for num_gt in ([0, 1, n, n + 2] if tier == "quick" else range(0, n + 3)):
                    if tier == "quick" and n == maxlen and rng.random() < 0.5:
                        continue
                    out.append({"stream": "exhaustive", "scene": scene_from_kinds(kinds), "mode": "CENTERDISTANCE",
                                "targets": ["car"], "thresholds": [1.0], "num_gt": num_gt, "kinds": "".join(kinds)})
        for kinds in ["TFTT", "TTFF", "FTTF", "HTHT"]:
            out.append({"stream": "ties", "scene": scene_from_kinds(kinds, tie=True), "mode": "CENTERDISTANCE",
                        "targets": ["car"], "thresholds": [1.0], "num_gt": 4, "kinds": kinds})
        # random scenes
        n_rand = 250 if tier == "quick" else 4000
        for i in range(n_rand):
            mode = rng.choice(A.MODES)
            scene = A.gen_scene(rng, tie_heavy=(i % 5 == 0), n=(rng.randint(30, 120) if (tier != "quick" and i % 50 == 0) else None), tilt_prob=0.12)
            k = rng.choice([1, 1, 2, 3])
            targets = rng.sample(A.LABELS[:4], k)
            if i % 6 == 1 or i % 83 == 7 or i == 120:
                # LONG rankings of one or two labels: >= 10 ranked (non-ignored) results; three of them 101-130 long (beyond any "top 100"), one
                # with more than 255 results
                focus = rng.sample(A.LABELS[:3], rng.choice([1, 1, 2]))
                n_long = rng.randint(258, 300) if i == 120 else rng.randint(101, 130) if i % 83 == 7 else rng.randint(10, 40)
                scene = A.gen_scene(rng, tie_heavy=(i % 12 == 1), n=n_long, labels=focus)
                targets = focus + rng.sample([l for l in A.LABELS[:4] if l not in focus], rng.choice([0, 0, 1]))
                rng.shuffle(targets)
            thresholds = [A.threshold_for(rng, mode, zero=True) for _ in targets]
            n_gt_objs = sum(1 for r in scene["results"] if r["gt"] is not None)
            num_gt = rng.choice([n_gt_objs, n_gt_objs + rng.randint(0, 3), rng.randint(0, 3), 0])
            if i % 9 == 4 and mode in ("CENTERDISTANCE", "IOU2D"):
                # 2D objects with an ROI (the two matching modes MetricsScore uses for 2D tasks); APH is not defined for 2D objects
                # (Map skips it: is_detection_2d).  Ap with a mode that does not exist for the object type is not a supported call
                # (its _calculate_average_sd dereferences get_matching(mode) unconditionally).
                scene = dict(scene, dim="2d")
            out.append({"stream": "random", "scene": scene, "mode": mode, "targets": targets, "thresholds": thresholds, "num_gt": num_gt})
        return out

    def run_impl(self, case):
        from perception_eval.evaluation.matching.object_matching import MatchingMode
        from perception_eval.evaluation.metrics.detection.ap import Ap
        from perception_eval.evaluation.metrics.detection.tp_metrics import TPMetricsAp, TPMetricsAph

        results = A.make_results(case["scene"])
        tl = [A.label_enum(x) for x in case["targets"]]
        obs = {}
        for nm, tpm in (("ap", TPMetricsAp()), ("aph", TPMetricsAph())):
            if nm == "aph" and case["scene"].get("dim") == "2d":
                continue
            fs = A.facts(case["scene"], results, case["mode"], case["targets"], case["thresholds"], tpm)
            flat = list(results)
            ap = Ap(tp_metrics=tpm, object_results=flat, num_ground_truth=case["num_gt"], target_labels=tl,
                    matching_mode=MatchingMode[case["mode"]], matching_threshold_list=case["thresholds"])
            ids = {id(r): i for i, r in enumerate(results)}
            obs[nm] = {"facts": fs, "tp_list": [float(x) for x in ap.tp_list], "fp_list": [float(x) for x in ap.fp_list],
                       "ap": A.inf_to_none(ap.ap), "order": [ids[id(r)] for r in flat]}
            # nested input (as the manager passes it) must give the same score
            half = len(results) // 2
            ap2 = Ap(tp_metrics=tpm, object_results=[list(results[:half]), list(results[half:])], num_ground_truth=case["num_gt"],
                     target_labels=tl, matching_mode=MatchingMode[case["mode"]], matching_threshold_list=case["thresholds"])
            obs[nm]["ap_nested"] = A.inf_to_none(ap2.ap)
        return obs

    def coq_term(self, case, obs):
        parts = []
        for nm in ("ap", "aph"):
            if nm not in obs:
                continue
            o = obs[nm]
            rs = llit([A.res_lit(f) for f in o["facts"]])
            parts.append(f"check_ap {A.mode_lit(case['mode'])} {case['num_gt']} {rs} {llit([qlit(x) for x in o['tp_list']])} "
                         f"{llit([qlit(x) for x in o['fp_list']])} {olit(o['ap'], qlit)} {llit([str(i) + '%nat' for i in o['order']])}")
        return "(" + " && ".join(parts) + ")%bool"

    def coq_debug(self, case, obs):
        o = obs["ap"]
        rs = llit([A.res_lit(f) for f in o["facts"]])
        return f"ap_model {A.mode_lit(case['mode'])} {case['num_gt']} {rs}"

    def oracle(self, case, obs):
        mx = A.MAXIMIZE[case["mode"]]
        n = case["num_gt"]
        vals = {}
        for nm in ("ap", "aph"):
            if nm not in obs:
                continue
            o = obs[nm]
            # "TP iff label-compatible and beats the label's threshold": both stated from the case, not read through the result objects
            msg = facts_disagree(case, o["facts"])
            if msg:
                return msg
            ref, tps, n_tp = A.ref_ap(doc_facts(case, o["facts"]), mx, n, unit_weight=(nm == "ap"))
            if (ref is None) != (o["ap"] is None):
                return f"{nm}: definedness differs (expected {'undefined' if ref is None else float(ref)}, got {o['ap']})"
            if ref is None:
                continue
            if abs(float(ref) - o["ap"]) > TOL:
                return f"{nm} = {o['ap']} but the interpolated precision-recall area of the ranking is {float(ref)}"
            if o["ap_nested"] is None or abs(o["ap_nested"] - o["ap"]) > TOL:
                return f"{nm}: flat input gives {o['ap']} but the same results as nested lists give {o['ap_nested']}"
            if n_tp <= n and not (-1e-12 <= o["ap"] <= 1 + 1e-12):
                return f"{nm} = {o['ap']} outside [0,1] although #TP={n_tp} <= num_gt={n}"
            if n_tp == 0 and abs(o["ap"]) > 1e-12:
                return f"{nm} = {o['ap']} but no estimate is correct"
            vals[nm] = (o["ap"], tps, n_tp)
        if "ap" in vals and "aph" in vals and vals["aph"][0] > vals["ap"][0] + 1e-12:
            return f"APH {vals['aph'][0]} exceeds AP {vals['ap'][0]}"
        if "ap" in vals:
            ap, tps, n_tp = vals["ap"]
            # perfect: every ground truth matched by a correct estimate, no wrong estimate above a TP
            if n > 0 and n_tp == n and all(tps[i] == i + 1 for i in range(n)) and abs(ap - 1.0) > 1e-12:
                return f"AP = {ap} for a perfect ranking (expected 1)"
        return None

    def nontrivial(self, case, obs):
        return len(case["scene"]["results"]) >= 2 and obs["ap"]["ap"] is not None

    def describe(self, case, obs):
        return {"case": {k: v for k, v in case.items() if k != "scene"}, "n_results": len(case["scene"]["results"]),
                "observed": {"ap": obs["ap"]["ap"], "aph": obs.get("aph", {}).get("ap"), "tp_list": obs["ap"]["tp_list"][:8]}}

    def distribution(self, cases, obs):
        d = {"streams": {}, "modes": {}, "sizes": {"0": 0, "1-4": 0, "5-14": 0, "15+": 0}, "ap_undefined": 0, "ap_zero": 0, "ap_one": 0,
             "with_conf_ties": 0, "with_ign": 0, "with_fp_label_gt": 0, "score_equals_threshold": 0, "objects_2d": 0,
             "results_without_matching_method": 0}
        for c, o in zip(cases, obs):
            d["streams"][c["stream"]] = d["streams"].get(c["stream"], 0) + 1
            d["modes"][c["mode"]] = d["modes"].get(c["mode"], 0) + 1
            n = len(c["scene"]["results"])
            d["sizes"]["0" if n == 0 else "1-4" if n <= 4 else "5-14" if n <= 14 else "15+"] += 1
            a = o["ap"]["ap"]
            d["ap_undefined"] += a is None
            d["ap_zero"] += a == 0.0
            d["ap_one"] += a is not None and abs(a - 1.0) < 1e-12
            confs = [f["conf"] for f in o["ap"]["facts"]]
            d["with_conf_ties"] += len(set(confs)) < len(confs)
            d["with_ign"] += any(f["thr"] is None for f in o["ap"]["facts"])
            d["objects_2d"] += c["scene"].get("dim") == "2d"
            d["results_without_matching_method"] += sum(1 for f in o["ap"]["facts"] if f["matching"] is None)
            d["with_fp_label_gt"] += any(f["gt_fp"] for f in o["ap"]["facts"])
            d["score_equals_threshold"] += any(f["thr"] is not None and f["matching"] and f["matching"]["value"] == f["thr"] for f in o["ap"]["facts"])
            ranked = sum(1 for f in o["ap"]["facts"] if f["thr"] is not None)
            for key, lo in (("rankings_of_10_or_more_counted_results", 10), ("rankings_of_more_than_100_counted_results", 101),
                            ("rankings_of_more_than_255_results", 256)):
                d[key] = d.get(key, 0) + ((n if lo == 256 else ranked) >= lo)
            d["distance_threshold_exactly_0"] = d.get("distance_threshold_exactly_0", 0) + (not A.MAXIMIZE[c["mode"]] and 0 in c["thresholds"])
            d["iou_threshold_exactly_0"] = d.get("iou_threshold_exactly_0", 0) + (A.MAXIMIZE[c["mode"]] and 0 in c["thresholds"])
        return d


class MapCorr(Corr):
    name = "map"
    header = HEADER
    requires = ["Model/AP.vo"]
    shard = 100

    def cases(self, tier, rng):
        out = []
        n_rand = 120 if tier == "quick" else 1500
        for i in range(n_rand):
            mode = rng.choice(A.MODES)
            scene = A.gen_scene(rng, n=rng.randint(0, 18), tilt_prob=0.15)
            k = rng.choice([1, 2, 3, 4])
            targets = rng.sample(A.LABELS[:4], k)
            if i % 5 == 2:
                # >= 10 results in ONE label's bucket, that label not first among >= 3 target labels
                focus = rng.sample(A.LABELS[:3], rng.choice([1, 2]))
                scene = A.gen_scene(rng, n=rng.randint(20, 45), labels=focus)
                rest = [l for l in A.LABELS[:4] if l not in focus]
                targets = rest[:rng.choice([1, 2])] + focus
                if rng.random() < 0.5:
                    rng.shuffle(targets)
            thresholds = [A.threshold_for(rng, mode, zero=True) for _ in targets]
            extra_gt = [rng.choice(A.LABELS) for _ in range(rng.randint(0, 4))]
            c = {"scene": scene, "mode": mode, "targets": targets, "thresholds": thresholds, "extra_gt": extra_gt}
            if i % 4 == 1:
                # the 2D detection path: ROI objects, Map(is_detection_2d=True) (AP only: no heading on an image) and
                # MetricsScore.evaluate_detection of a detection2d task (centre-distance and IoU-2D Maps only, in that order,
                # although plane-distance / IoU-3D thresholds are configured)
                c["mode"] = mode = rng.choice(["CENTERDISTANCE", "IOU2D"])
                c["scene"] = dict(scene, dim="2d")
                # centre distances are in pixels (8 px per lattice step of the scene)
                thr2 = lambda md: rng.choice([4.0, 5.0, 8.0, 10.0, 16.0, 40.0, 1.0]) if md == "CENTERDISTANCE" else A.threshold_for(rng, md)  # noqa: E731
                c["thresholds"] = [thr2(mode) for _ in targets]
                other = "IOU2D" if mode == "CENTERDISTANCE" else "CENTERDISTANCE"
                c["other"] = {"mode": other, "thresholds": [thr2(other) for _ in targets]}
            out.append(c)
        return out

    def run_impl(self, case):
        from perception_eval.evaluation.matching.object_matching import MatchingMode
        from perception_eval.evaluation.matching.objects_filter import divide_objects, divide_objects_to_num
        from perception_eval.evaluation.metrics.detection.map import Map
        from perception_eval.evaluation.metrics.detection.tp_metrics import TPMetricsAp, TPMetricsAph

        results = A.make_results(case["scene"])
        dim = case["scene"].get("dim", "3d")
        tl = [A.label_enum(x) for x in case["targets"]]
        gts = [r.ground_truth_object for r in results if r.ground_truth_object is not None]
        gts += [A.make_object(A.gen_spec(__import__("random").Random(i), label=l), f"x{i}", dim) for i, l in enumerate(case["extra_gt"])]
        gt_labels = [g.semantic_label.label.value for g in gts]
        buckets = divide_objects(results, tl)
        nums = divide_objects_to_num(gts, tl)
        if len(results) % 2:
            # the dictionaries are looked up BY LABEL: their insertion order is the caller's business (the manager builds them with the
            # critical filter's label order, which need not be the evaluator's) -- half of the cases hand them over reversed
            buckets = dict(reversed(list(buckets.items())))
            nums = dict(reversed(list(nums.items())))
        kw = {"is_detection_2d": True} if dim == "2d" else {}
        try:
            mp = Map(object_results_dict=buckets, num_ground_truth_dict=nums, target_labels=tl,
                     matching_mode=MatchingMode[case["mode"]], matching_threshold_list=case["thresholds"], **kw)
        except Exception as e:      # a (mutated) Map may raise on a supported call: an observation, not a harness error
            return {"error": f"Map({case['mode']}{', is_detection_2d=True' if kw else ''}) raised {type(e).__name__}: {e}"}
        fs_ap = A.facts(case["scene"], results, case["mode"], case["targets"], case["thresholds"], TPMetricsAp())
        ids = {id(r): i for i, r in enumerate(results)}
        obs = {
            "facts_ap": fs_ap, "gt_labels": gt_labels,
            "aps": [A.inf_to_none(a.ap) for a in mp.aps], "aphs": [A.inf_to_none(a.ap) for a in mp.aphs],
            "map": A.inf_to_none(mp.map), "maph": A.inf_to_none(mp.maph),
            "bucket_ids": {l.value: [ids[id(r)] for r in rs] for l, rs in buckets.items()},
            "nums": {l.value: n for l, n in nums.items()},
        }
        if dim != "2d":
            obs["facts_aph"] = A.facts(case["scene"], results, case["mode"], case["targets"], case["thresholds"], TPMetricsAph())
            return obs
        # the same buckets through MetricsScore of a detection2d task
        from perception_eval.common.evaluation_task import EvaluationTask
        from perception_eval.evaluation.metrics.metrics import MetricsScore
        from perception_eval.evaluation.metrics.metrics_score_config import MetricsScoreConfig

        by_mode = {case["mode"]: case["thresholds"], case["other"]["mode"]: case["other"]["thresholds"]}
        cfg = MetricsScoreConfig(EvaluationTask.DETECTION2D, target_labels=tl, center_distance_thresholds=[list(by_mode["CENTERDISTANCE"])],
                                 iou_2d_thresholds=[list(by_mode["IOU2D"])], plane_distance_thresholds=[[1.0] * len(tl)],
                                 iou_3d_thresholds=[[0.5] * len(tl)])
        ms = MetricsScore(cfg, used_frame=[0])
        try:
            ms.evaluate_detection(buckets, nums)
        except Exception as e:
            return {"error": f"MetricsScore(detection2d).evaluate_detection raised {type(e).__name__}: {e}"}
        obs["score_maps"] = [{"mode": m.matching_mode.name, "aps": [A.inf_to_none(a.ap) for a in m.aps], "n_aphs": len(m.aphs),
                              "map": A.inf_to_none(m.map), "maph": A.inf_to_none(m.maph), "thr": [float(t) for t in m.matching_threshold_list],
                              "str_ok": isinstance(str(m), str)} for m in ms.maps]
        obs["score_num_gt"] = int(ms.num_ground_truth)
        obs["facts_other"] = A.facts(case["scene"], results, case["other"]["mode"], case["targets"], case["other"]["thresholds"], TPMetricsAp())
        return obs

    @staticmethod
    def _lab(name):
        return {"car": 1, "bicycle": 2, "pedestrian": 3, "unknown": 0, "false_positive": 4, "truck": 5, "bus": 6, "motorbike": 7, "animal": 8}[name]

    def _xs(self, fs):
        return llit([f"(mkL {A.res_lit(f, thr_override=None)} {self._lab(f['est_label'])} {olit(f['gt_label'], lambda x: str(self._lab(x)) + '%nat')})" for f in fs])

    def coq_term(self, case, obs):
        if "error" in obs:
            return "false"
        m = A.mode_lit(case["mode"])
        tg = llit([str(self._lab(x)) + '%nat' for x in case["targets"]])
        th = llit([qlit(x) for x in case["thresholds"]])
        gl = llit([str(self._lab(x)) + '%nat' for x in obs["gt_labels"]])
        t1 = f"check_map {m} {tg} {th} {gl} {self._xs(obs['facts_ap'])} {llit([olit(a, qlit) for a in obs['aps']])} {olit(obs['map'], qlit)}"
        if "facts_aph" not in obs:          # 2D detection: no APH
            return f"({t1})%bool"
        t2 = f"check_map {m} {tg} {th} {gl} {self._xs(obs['facts_aph'])} {llit([olit(a, qlit) for a in obs['aphs']])} {olit(obs['maph'], qlit)}"
        return f"({t1} && {t2})%bool"

    def coq_debug(self, case, obs):
        if "error" in obs:
            return None
        m = A.mode_lit(case["mode"])
        tg = llit([str(self._lab(x)) + '%nat' for x in case["targets"]])
        th = llit([qlit(x) for x in case["thresholds"]])
        gl = llit([str(self._lab(x)) + '%nat' for x in obs["gt_labels"]])
        return f"label_aps {m} {tg} {th} {gl} {self._xs(obs['facts_ap'])}"

    @staticmethod
    def _mean_ok(nm, aps, mp):
        fin = [a for a in aps if a is not None]
        if not fin:
            return f"{nm} = {mp} although no per-label AP is defined" if mp is not None else None
        if mp is None or abs(mp - sum(fin) / len(fin)) > 1e-9:
            return f"{nm} = {mp} is not the mean {sum(fin) / len(fin)} of the defined per-label values {fin}"
        return None

    @staticmethod
    def _labels_ok(case, mode, thresholds, facts, gt_labels, aps, aphs):
        """per-label AP equals the interpolated area of that label's bucket (buckets as documented)"""
        mx = A.MAXIMIZE[mode]
        sub = dict(case, mode=mode, thresholds=thresholds)
        msg = facts_disagree(sub, facts)
        if msg:
            return msg
        facts_ap = doc_facts(sub, facts)
        for li, (lab, thr) in enumerate(zip(case["targets"], thresholds)):
            fs = [f for f in facts_ap if (f["est_label"] == lab) or (f["est_label"] not in case["targets"] and f["gt_label"] == lab)]
            num = sum(1 for g in gt_labels if g == lab)

            def thr_of(f, lab=lab, thr=thr):
                return thr if (f["gt_label"] if f["has_gt"] else f["est_label"]) == lab else None

            ref, _, n_tp = A.ref_ap(fs, mx, num, True, thr_of)
            got = aps[li]
            if (ref is None) != (got is None) or (ref is not None and abs(float(ref) - got) > 1e-9):
                return f"AP[{lab}] ({mode}) = {got} but the interpolated area over that label's results is {None if ref is None else float(ref)}"
            if got is not None and n_tp <= num and not (-1e-12 <= got <= 1 + 1e-12):
                return f"AP[{lab}] = {got} outside [0,1]"
            if aphs and got is not None and aphs[li] is not None and aphs[li] > got + 1e-12:
                return f"APH[{lab}] {aphs[li]} > AP {got}"
        return None

    def oracle(self, case, obs):
        if "error" in obs:
            return obs["error"] + " on a well-formed set of buckets"
        two_d = case["scene"].get("dim") == "2d"
        if len(obs["aps"]) != len(case["targets"]):
            return f"{len(obs['aps'])} per-label APs for {len(case['targets'])} target labels"
        if two_d and (obs["aphs"] or obs["maph"] is not None):
            return f"2D detection: APH is not defined for objects on an image, but Map reports aphs = {obs['aphs']}, mAPH = {obs['maph']}"
        if not two_d and len(obs["aphs"]) != len(case["targets"]):
            return f"{len(obs['aphs'])} per-label APHs for {len(case['targets'])} target labels"
        msg = (self._mean_ok("mAP", obs["aps"], obs["map"]) or (None if two_d else self._mean_ok("mAPH", obs["aphs"], obs["maph"]))
               or self._labels_ok(case, case["mode"], case["thresholds"], obs["facts_ap"], obs["gt_labels"], obs["aps"], obs["aphs"]))
        if msg or not two_d:
            return msg
        # MetricsScore of a detection2d task: one centre-distance Map, then one IoU-2D Map, nothing else; AP only
        sm = obs["score_maps"]
        if [m["mode"] for m in sm] != ["CENTERDISTANCE", "IOU2D"]:
            return (f"MetricsScore(detection2d).maps are {[m['mode'] for m in sm]}: a 2D task has one Map per configured centre-distance and IoU-2D "
                    f"threshold list, in that order (plane distance and IoU 3D do not exist on an image)")
        want_ngt = sum(1 for g in obs["gt_labels"] if g in case["targets"])
        if obs["score_num_gt"] != want_ngt:
            return f"MetricsScore.num_ground_truth = {obs['score_num_gt']} but {want_ngt} ground truths carry a target label"
        for m in sm:
            mine = m["mode"] == case["mode"]
            thr = case["thresholds"] if mine else case["other"]["thresholds"]
            if m["thr"] != [float(t) for t in thr]:
                return f"MetricsScore Map {m['mode']} uses thresholds {m['thr']} but {thr} are configured for that mode"
            if m["n_aphs"] or m["maph"] is not None:
                return f"MetricsScore(detection2d) Map {m['mode']} reports {m['n_aphs']} APHs / mAPH = {m['maph']}: not defined on an image"
            if not m["str_ok"]:
                return "str(Map) failed"
            if mine and (m["aps"] != obs["aps"] or m["map"] != obs["map"]):
                return f"MetricsScore Map {m['mode']}: aps {m['aps']} / mAP {m['map']} differ from Map(...) on the same buckets: {obs['aps']} / {obs['map']}"
            msg = (self._mean_ok("mAP", m["aps"], m["map"])
                   or self._labels_ok(case, m["mode"], thr, obs["facts_ap"] if mine else obs["facts_other"], obs["gt_labels"], m["aps"], []))
            if msg:
                return "MetricsScore(detection2d): " + msg
        return None

    def nontrivial(self, case, obs):
        return "error" not in obs and sum(a is not None for a in obs["aps"]) >= 1 and len(case["scene"]["results"]) >= 2

    def describe(self, case, obs):
        return {"case": {k: v for k, v in case.items() if k != "scene"}, "n_results": len(case["scene"]["results"]),
                "observed": {k: obs.get(k) for k in ("aps", "aphs", "map", "maph", "nums", "error")}}

    def distribution(self, cases, obs):
        d = {"n_targets": {}, "map_undefined": 0, "some_label_undefined": 0, "detection2d_map_and_metrics_score": 0, "detection2d_ap_defined": 0}
        for c, o in zip(cases, obs):
            if "aps" not in o:
                continue
            d["detection2d_map_and_metrics_score"] += c["scene"].get("dim") == "2d"
            d["detection2d_ap_defined"] += c["scene"].get("dim") == "2d" and any(a is not None and a > 0 for a in o["aps"])
            k = str(len(c["targets"]))
            d["n_targets"][k] = d["n_targets"].get(k, 0) + 1
            d["map_undefined"] += o["map"] is None
            d["some_label_undefined"] += any(a is None for a in o["aps"])
            big = [l for l, ids in o["bucket_ids"].items() if len(ids) >= 10]
            d["label_bucket_of_10_or_more_results"] = d.get("label_bucket_of_10_or_more_results", 0) + bool(big)
            d["big_bucket_not_the_first_of_3_or_more_targets"] = d.get("big_bucket_not_the_first_of_3_or_more_targets", 0) + bool(
                len(c["targets"]) >= 3 and big and c["targets"][0] not in big)
            d["threshold_exactly_0"] = d.get("threshold_exactly_0", 0) + (0 in c["thresholds"])
        return d


class C04(Prop):
    id = "C04"
    props_file = "Props/C04.v"
    # redundant tie (core.gen_tie): these decision functions, translated from the source on every run, equal the hand model for all inputs
    gen_tie_theorems = ['GenTie_is_result_correct', 'GenTie_is_label_correct', 'GenTie_get_label_threshold', 'GenTie_LabelThreshold_get_label_threshold', 'GenTie_interpolate_precision_recall_list', 'GenTie_interpolate_precision_recall_list_outside', 'GenTie__calculate_ap', 'GenTie__calculate_ap_outside', 'GenTie_get_precision_recall_list', 'GenTie_Ap__calculate_tp_fp', 'GenTie_Ap__calculate_tp_fp_outside', 'GenTieSrc_C04_calculate_ap_is_all_point_interpolation']
    extra_props_files = ["Props/Pipeline.v"]     # the composed frame pipeline (C01 -> C10 -> C03 -> C04; C08 on it)
    design_ref = "DESIGN.md section 4, C04"
    technique = "Rocq proof (induction over rankings, telescoping + Abel summation over Q) about a hand model of Ap/Map; in-Coq correspondence with the real Ap/Map"
    level_text = ("Theorems (Props/C04.v, closed under the global context), for rankings of ANY length and any rational weights: the code's record-high "
                  "envelope area equals all-point interpolation; the ranking is a stable descending sort; TP iff label-compatible and better than the "
                  "label's threshold; AP/APH in [0,1] when weights are in [0,1] and #TP <= #GT; APH <= AP; AP = 1 for a perfect ranking, 0 without a TP; "
                  "mAP is the mean over defined APs and stays in [0,1]. The model (sort, cumulative TP/FP, precision/recall, interpolation, per-label "
                  "buckets, Map) is run inside Coq on the same result sets as the real Ap/Map (exhaustive small rankings + random scenes, all four "
                  "matching modes, three label policies) and must reproduce tp_list, fp_list, AP, sort order, per-label APs and mAP/mAPH; the scene-level maps of the real manager (get_scene_result over 1-5 frames, frames without estimates included) are recomputed by the model from the pooled frame results.")
    level_note = ("Trusted: Coq kernel+vm_compute; the correspondence harness; binary64 rounding (scores compared within 1e-9); the per-pair facts "
                  "(matching value, label compatibility, heading weight) are read from the real objects -- their meaning is C06/C09. "
                  "'#TP <= #GT' is a hypothesis here (it follows from C01/C03 for the frame pipeline).")
    rule = ("exhaustive: every ranking over {TP, TP with heading off by pi/2, FP, ignored} up to length 4 (quick) / 6 (thorough) x several GT counts; "
            "random: scenes of 0-14 (some 30-120) results on the k/8 lattice with confidence ties, FP-labelled and unknown GT, scores exactly on the threshold; "
            "every sixth random scene ranks 10-40 results of one or two labels, three scenes 101-130 and one more than 255; distance thresholds of "
            "exactly 0 next to the IoU threshold 0 (a threshold, not 'no threshold'); every fifth Map case has a label bucket of >= 10 results that is "
            "not the first of >= 3 target labels; "
            "Map stream: every fourth case a 2D detection case (ROI objects, Map(is_detection_2d=True): AP only, no APH / mAPH; the same buckets through "
            "MetricsScore.evaluate_detection of a detection2d task: exactly one centre-distance and one IoU-2D Map although plane-distance / IoU-3D "
            "thresholds are configured); oracle: label compatibility (policy on the generated label names) and the label's threshold (index of the "
            "label in the target list) are stated from the case and compared with is_label_correct / get_label_threshold on every result; "
            "non-trivial = at least 2 results and a defined AP")
    assumptions = ["scores compared within 1e-9 (binary64 rounding of cumsum/division)",
                   "matching value and heading weight are read through public getters of the real objects (C06/C09); label compatibility and "
                   "thresholds are additionally derived from the case in the oracle"]
    not_proved = ["that #TP <= #GT in a frame (hypothesis here; C01/C03)", "binary64 rounding"]

    def correspondences(self):
        # third tie: MetricsScore.maps as the MANAGER produces them (add_frame_result, get_scene_result) -- the scene-level detection scores
        # recomputed by the AP model from the pooled object results and the summed ground-truth counts (shared with C13)
        from harness.props.C13 import PoolingCorr
        return [ApCorr(), MapCorr(), PoolingCorr()]

    def cleanup(self):
        from harness.props import manager_common as MC
        MC.cleanup_tmp(all_pids=True)


READY = True
PROP = C04()
