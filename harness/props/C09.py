"""C09 -- heading comparisons use the true minimal yaw difference (APH weight, heading error)."""
import math
from fractions import Fraction

from harness.lib.core import Corr, Prop, blit, llit, qlit

N = 24                 # yaw grid: k*pi/N, k in -(N-1)..N
TOL = 1e-9
WRAP_MARGIN = 1e-6     # the sign of an error of magnitude pi (and the side of a heading of +-pi) is ambiguous
TILT_TOL = 0.06        # stream 2: roll/pitch <= 0.05 rad perturb the yaw by less than this

HEADER = ("From Coq Require Import QArith List Bool.\nFrom PE Require Import Base.CaseUtil Model.Heading.\n"
          "Import ListNotations.\nOpen Scope Q_scope.\n")


def wrap_k(k):
    """grid index of the same direction in -(N-1)..N"""
    k = k % (2 * N)
    return k - 2 * N if k > N else k


def dist_k(k1, k2):
    a = abs(k1 - k2) % (2 * N)
    return min(a, 2 * N - a)


def _mk(frame, pos, quat, score=0.9, uuid=None):
    from perception_eval.common.label import AutowareLabel, Label
    from perception_eval.common.object import DynamicObject
    from perception_eval.common.shape import Shape, ShapeType

    return DynamicObject(100, frame, tuple(float(x) for x in pos), quat, Shape(ShapeType.BOUNDING_BOX, (2.0, 1.0, 1.0)),
                         (0.0, 0.0, 0.0), score, Label(AutowareLabel.CAR, "car"), uuid=uuid)


def _qz(angle):
    from pyquaternion import Quaternion

    return Quaternion(axis=[0.0, 0.0, 1.0], angle=angle)


def _quat_zyx(yaw, pitch, roll):
    from pyquaternion import Quaternion

    return (Quaternion(axis=[0.0, 0.0, 1.0], angle=yaw) * Quaternion(axis=[0.0, 1.0, 0.0], angle=pitch)
            * Quaternion(axis=[1.0, 0.0, 0.0], angle=roll))


def _signed(q, s):
    return q if s > 0 else -q


def _scene(case_e, case_t, e_quat=None):
    from perception_eval.common.schema import FrameID
    from perception_eval.common.transform import HomogeneousMatrix, TransformDict

    ego2map = HomogeneousMatrix(tuple(case_t), e_quat if e_quat is not None else _qz(case_e * math.pi / N), FrameID.BASE_LINK, FrameID.MAP)
    return ego2map, TransformDict([ego2map])


def _pair_objects(pos, q1, q2, s1, s2, ego2map, score=0.9, uuids=(None, None)):
    """the same physical pair expressed in the ego frame and in the map frame"""
    from perception_eval.common.schema import FrameID

    est = _mk(FrameID.BASE_LINK, pos, _signed(q1, s1), score, uuids[0])
    gt = _mk(FrameID.BASE_LINK, pos, _signed(q2, s2), score, uuids[1])
    p1, m1 = ego2map.transform(tuple(pos), q1)
    p2, m2 = ego2map.transform(tuple(pos), q2)
    # Quaternion(matrix=...) picks a sign of its own: normalise to w >= 0 first so that s really selects the sign
    m1 = m1 if m1.w >= 0 else -m1
    m2 = m2 if m2.w >= 0 else -m2
    est_m = _mk(FrameID.MAP, p1, _signed(m1, s1), score, uuids[0])
    gt_m = _mk(FrameID.MAP, p2, _signed(m2, s2), score, uuids[1])
    return est, gt, est_m, gt_m


def _observe(est, gt, est_m, gt_m, transforms, flip_est, flip_est_m, flip_gt=None, flip_gt_m=None):
    from perception_eval.evaluation.metrics.detection.tp_metrics import TPMetricsAph
    from perception_eval.evaluation.result.object_result import DynamicObjectWithPerceptionResult as R

    aph = TPMetricsAph()
    r = R(est, gt)
    rs = R(gt, est)
    rf = R(flip_est, gt)
    rm = R(est_m, gt_m, transforms=transforms)
    rms = R(gt_m, est_m, transforms=transforms)
    rmf = R(flip_est_m, gt_m, transforms=transforms)
    extra = {"err_map_flip": float(rmf.heading_error[2])}
    if flip_gt is not None:
        # the GROUND TRUTH's quaternion negated alone (oracle-only observations)
        rg, rmg = R(est, flip_gt), R(est_m, flip_gt_m, transforms=transforms)
        extra.update({"w_ego_flipgt": float(aph.get_value(rg)), "w_map_flipgt": float(aph.get_value(rmg)),
                      "err_ego_flipgt": float(rg.heading_error[2]), "err_map_flipgt": float(rmg.heading_error[2])})
    return {
        **extra,
        "w_ego": float(aph.get_value(r)), "w_ego_swapped": float(aph.get_value(rs)), "w_ego_flip": float(aph.get_value(rf)),
        "w_map": float(aph.get_value(rm)), "w_map_swapped": float(aph.get_value(rms)), "w_map_flip": float(aph.get_value(rmf)),
        "err_ego": float(r.heading_error[2]), "err_ego_swapped": float(rs.heading_error[2]), "err_ego_flip": float(rf.heading_error[2]),
        "err_map": float(rm.heading_error[2]), "err_map_swapped": float(rms.heading_error[2]),
        "hb_est": float(est.get_heading_bev()), "hb_gt": float(gt.get_heading_bev()),
        "hb_est_map": float(est_m.get_heading_bev(transforms)), "hb_gt_map": float(gt_m.get_heading_bev(transforms)),
        "err_roll_pitch": [float(r.heading_error[0]), float(r.heading_error[1])],
        # the two yaw angles read off the orientations themselves (the yaw of the documented yaw-pitch-roll decomposition), for the
        # tilted stream: the weight is 1 - d/pi of THESE angles exactly, whatever the roll and pitch
        "yaw_est": float(est.state.orientation.yaw_pitch_roll[0]), "yaw_gt": float(gt.state.orientation.yaw_pitch_roll[0]),
    }


def c_or(k, s):
    return f"({qlit(Fraction(k, N))}, {blit(s > 0)})"


def pi_units(x):
    return qlit(x / math.pi)


class HeadingCorr(Corr):
    name = "heading"
    header = HEADER
    requires = ["Model/Heading.vo", "Base/CaseUtil.vo"]
    shard = 200

    def cases(self, tier, rng):
        out = []
        # former failing inputs first: negative yaw in the ego frame, est above / below gt, wrap-around
        for (k1, k2) in ((3, -3), (-3, 3), (2, -2), (23, -23), (-23, 23), (24, 0), (0, 24), (12, -12), (24, -23), (13, -12)):
            for s1, s2 in ((1, 1), (1, -1), (-1, 1), (-1, -1)):
                out.append({"kind": "pair", "k1": k1, "k2": k2, "s1": s1, "s2": s2, "e": 7, "t": [10.0, -4.0, 1.0], "pos": [1.0, 2.0, 0.0]})
        ks = list(range(-(N - 1), N + 1))
        # neighbouring headings (1 or 2 grid steps apart, nowhere near +-pi in the ego frame) under an ego yaw that puts the estimate's MAP yaw at pi /
        # next to -pi, so that the pair lies across the +-pi cut in the map rendering only
        for k1 in ks[::2]:
            for dk in (1, -2):
                k2 = k1 + dk
                if not -(N - 1) <= k2 <= N:
                    continue
                e = wrap_k(N - k1) if dk > 0 else wrap_k(-(N - 1) - k1)
                out.append({"kind": "pair", "k1": k1, "k2": k2, "s1": rng.choice((1, -1)), "s2": rng.choice((1, -1)), "e": e,
                            "t": [rng.randint(-800, 800) / 8.0, rng.randint(-800, 800) / 8.0, 0.5], "pos": [rng.randint(-400, 400) / 8.0, 3.0, 0.0]})
        reps = 1 if tier == "quick" else 6
        for _ in range(reps):
            for k1 in ks:
                for k2 in ks:
                    out.append({"kind": "pair", "k1": k1, "k2": k2, "s1": rng.choice((1, -1)), "s2": rng.choice((1, -1)),
                                "e": rng.choice(ks), "t": [rng.randint(-800, 800) / 8.0, rng.randint(-800, 800) / 8.0, rng.randint(-16, 16) / 8.0],
                                "pos": [rng.randint(-400, 400) / 8.0, rng.randint(-400, 400) / 8.0, rng.randint(-8, 8) / 8.0]})
        for i in range(60 if tier == "quick" else 600):
            n = rng.randint(1, 8)
            pairs = [[rng.choice(ks), rng.choice(ks), rng.choice((1, -1)), rng.choice((1, -1))] for _ in range(n)]
            order = list(range(n))
            rng.shuffle(order)
            out.append({"kind": "ap", "pairs": pairs, "map": i % 2 == 1, "e": rng.choice(ks), "order": order,
                        "t": [rng.randint(-800, 800) / 8.0, rng.randint(-800, 800) / 8.0, 0.0]})
            if i % 3 == 0 and n >= 2:
                # the same ranking with some results that HAVE a ground truth but miss the threshold (2 m away): they carry no weight and
                # must not shift the weights of the TPs ranked after them (oracle only: the Coq model of this stream ranks TPs only)
                far = [rng.random() < 0.4 for _ in range(n)]
                if any(far) and not all(far):
                    out.append(dict(out[-1], far=far))
        return out

    def run_impl(self, case):
        if case["kind"] == "pair":
            ego2map, tr = _scene(case["e"], case["t"])
            q1, q2 = _qz(case["k1"] * math.pi / N), _qz(case["k2"] * math.pi / N)
            est, gt, est_m, gt_m = _pair_objects(case["pos"], q1, q2, case["s1"], case["s2"], ego2map)
            fest, fgt, fest_m, fgt_m = _pair_objects(case["pos"], q1, q2, -case["s1"], -case["s2"], ego2map)
            return _observe(est, gt, est_m, gt_m, tr, fest, fest_m, fgt, fgt_m)
        from perception_eval.common.label import AutowareLabel
        from perception_eval.evaluation.matching.object_matching import MatchingMode
        from perception_eval.evaluation.metrics.detection.ap import Ap
        from perception_eval.evaluation.metrics.detection.tp_metrics import TPMetricsAph
        from perception_eval.evaluation.result.object_result import DynamicObjectWithPerceptionResult as R

        ego2map, tr = _scene(case["e"], case["t"])
        results = []
        for i, (k1, k2, s1, s2) in enumerate(case["pairs"]):
            pos = [4.0 * i - 10.0, 2.0 + i, 0.0]
            # the results of several frames pooled in one Ap: tracked objects keep their uuid while they turn (two tracks here)
            est, gt, est_m, gt_m = _pair_objects(pos, _qz(k1 * math.pi / N), _qz(k2 * math.pi / N), s1, s2, ego2map,
                                                 score=(60 - 5 * i) / 64.0, uuids=(f"t{i % 2}", f"g{i % 2}"))
            if case.get("far") and case["far"][i]:
                _, gt, _, gt_m = _pair_objects([pos[0] + 2.0, pos[1], pos[2]], _qz(k1 * math.pi / N), _qz(k2 * math.pi / N), s1, s2, ego2map,
                                               score=(60 - 5 * i) / 64.0, uuids=(f"t{i % 2}", f"g{i % 2}"))
            results.append(R(est_m, gt_m, transforms=tr) if case["map"] else R(est, gt))
        shuffled = [results[j] for j in case["order"]]
        ap = Ap(TPMetricsAph(), [shuffled], len(results), [AutowareLabel.CAR], MatchingMode.CENTERDISTANCE, [1.0])
        return {"tp_list": [float(x) for x in ap.tp_list], "fp_list": [float(x) for x in ap.fp_list]}

    def coq_term(self, case, obs):
        if case["kind"] == "ap" and case.get("far"):
            return "true"
        if case["kind"] == "ap":
            pairs = llit([f"({c_or(k1, s1)}, {c_or(k2, s2)})" for (k1, k2, s1, s2) in case["pairs"]])
            if case["map"]:
                e = qlit(Fraction(case["e"], N))
                pairs = f"(map (fun p => (in_map {e} (fst p), in_map {e} (snd p))) {pairs})"
            return f'list_close tol9 (aph_tp_list {blit(case["map"])} {pairs}) {llit([qlit(x) for x in obs["tp_list"]])}'
        k1, k2, e = case["k1"], case["k2"], case["e"]
        o1, o2, o1f = c_or(k1, case["s1"]), c_or(k2, case["s2"]), c_or(k1, -case["s1"])
        eq = qlit(Fraction(e, N))
        m1, m2, m1f = f"(in_map {eq} {o1})", f"(in_map {eq} {o2})", f"(in_map {eq} {o1f})"

        def ang(model, value, at_wrap):
            # yaw errors: exact comparison away from the +-pi wrap, comparison on the circle at it;
            # BEV headings are directions and always compared on the circle (x and x +- 2pi are the same heading)
            return f"{'circ_close' if at_wrap else 'Qclose'} tol9 {model} {pi_units(value)}"

        err_wrap = dist_k(k1, k2) == N
        parts = [
            f'Qclose tol9 (aph_weight false {o1} {o2}) {qlit(obs["w_ego"])}',
            f'Qclose tol9 (aph_weight false {o2} {o1}) {qlit(obs["w_ego_swapped"])}',
            f'Qclose tol9 (aph_weight false {o1f} {o2}) {qlit(obs["w_ego_flip"])}',
            f'Qclose tol9 (aph_weight true {m1} {m2}) {qlit(obs["w_map"])}',
            f'Qclose tol9 (aph_weight true {m2} {m1}) {qlit(obs["w_map_swapped"])}',
            f'Qclose tol9 (aph_weight true {m1f} {m2}) {qlit(obs["w_map_flip"])}',
            ang(f"(yaw_error {o1} {o2})", obs["err_ego"], err_wrap),
            ang(f"(yaw_error {o2} {o1})", obs["err_ego_swapped"], err_wrap),
            ang(f"(yaw_error {o1f} {o2})", obs["err_ego_flip"], err_wrap),
            ang(f"(yaw_error {m1} {m2})", obs["err_map"], err_wrap),
            ang(f"(yaw_error {m2} {m1})", obs["err_map_swapped"], err_wrap),
            ang(f"(heading_bev_ego {o1})", obs["hb_est"], True),
            ang(f"(heading_bev_ego {o2})", obs["hb_gt"], True),
            ang(f"(heading_bev_via (- {eq}) {m1})", obs["hb_est_map"], True),
            ang(f"(heading_bev_via (- {eq}) {m2})", obs["hb_gt_map"], True),
        ]
        return "(" + " && ".join(parts) + ")"

    def coq_debug(self, case, obs):
        if case["kind"] == "ap":
            return None
        o1, o2 = c_or(case["k1"], case["s1"]), c_or(case["k2"], case["s2"])
        eq = qlit(Fraction(case["e"], N))
        return (f"(aph_weight false {o1} {o2}, aph_weight true (in_map {eq} {o1}) (in_map {eq} {o2}), yaw_error {o1} {o2}, "
                f"heading_bev_ego {o1}, heading_bev_via (- {eq}) (in_map {eq} {o1}))")

    # --- the property on the implementation's outputs
    def oracle(self, case, obs):
        if case["kind"] == "ap":
            prev = 0.0
            ws = [1.0 - dist_k(k1, k2) / N for (k1, k2, _, _) in case["pairs"]]
            if case.get("far"):
                ws = [0.0 if f else w for w, f in zip(ws, case["far"])]
            if len(obs["tp_list"]) != len(ws):
                return f"tp_list has {len(obs['tp_list'])} entries for {len(ws)} results"
            for i, (x, w) in enumerate(zip(obs["tp_list"], ws)):
                if abs((x - prev) - w) > TOL:
                    return f"APH tp_list step {i} is {x - prev}, expected 1 - d/pi = {w} (pair {case['pairs'][i]})"
                prev = x
            return None
        return check_pair(obs, case["k1"] * math.pi / N, case["k2"] * math.pi / N, dist_k(case["k1"], case["k2"]) * math.pi / N,
                          TOL, TOL, f"yaws {case['k1']}pi/{N}, {case['k2']}pi/{N} signs {case['s1']},{case['s2']} ego yaw {case['e']}pi/{N}")

    def nontrivial(self, case, obs):
        return case["kind"] == "ap" or case["k1"] != case["k2"]

    def distribution(self, cases, obs):
        d = {"pairs": 0, "ap": 0, "negative_yaw_est": 0, "wrap_pairs": 0, "opposite": 0, "equal": 0, "negative_sign": 0,
             "pairs_straddling_the_pi_cut_in_the_map_frame_only": 0, "of_those_at_most_2_grid_steps_apart": 0}
        for c in cases:
            if c["kind"] == "ap":
                d["ap"] += 1
                continue
            d["pairs"] += 1
            d["negative_yaw_est"] += c["k1"] < 0
            d["wrap_pairs"] += abs(c["k1"] - c["k2"]) > N
            d["opposite"] += dist_k(c["k1"], c["k2"]) == N
            d["equal"] += c["k1"] == c["k2"]
            d["negative_sign"] += (c["s1"] < 0) + (c["s2"] < 0)
            st = abs(c["k1"] - c["k2"]) <= N < abs(wrap_k(c["k1"] + c["e"]) - wrap_k(c["k2"] + c["e"]))
            d["pairs_straddling_the_pi_cut_in_the_map_frame_only"] += st
            d["of_those_at_most_2_grid_steps_apart"] += st and dist_k(c["k1"], c["k2"]) <= 2
        return d


def circ_diff(a, b):
    """|a - b| on the circle"""
    x = abs(a - b) % (2 * math.pi)
    return min(x, 2 * math.pi - x)


def check_pair(obs, y1, y2, d, tol_w, tol_a, what, tol_w_map=None, tol_a_map=None):
    """Direct statement of C09 for one physical pair with true yaws y1 (estimate), y2 (ground truth) and
    true minimal difference d; tol_w for weights (unit: fraction of pi), tol_a for angles (rad); tol_w_map / tol_a_map (default: the same)
    for every quantity read off the MAP rendering (a tilted ego pose perturbs the map-frame yaws)."""
    tol_w_map = tol_w if tol_w_map is None else tol_w_map
    tol_a_map = tol_a if tol_a_map is None else tol_a_map
    want = 1.0 - d / math.pi
    if abs(obs["w_ego"] - want) > tol_w:
        return f"APH weight {obs['w_ego']} != 1 - d/pi = {want} in the ego frame ({what})"
    if abs(obs["w_ego"] - obs["w_ego_swapped"]) > tol_w or abs(obs["w_map"] - obs["w_map_swapped"]) > tol_w_map:
        return f"APH weight is not symmetric: {obs['w_ego']} vs {obs['w_ego_swapped']} (map {obs['w_map']} vs {obs['w_map_swapped']}) ({what})"
    if abs(obs["w_ego"] - obs["w_ego_flip"]) > tol_w or abs(obs["w_map"] - obs["w_map_flip"]) > tol_w_map:
        return f"APH weight depends on the quaternion sign: {obs['w_ego']} vs {obs['w_ego_flip']} (map {obs['w_map']} vs {obs['w_map_flip']}) ({what})"
    if "w_ego_flipgt" in obs and (abs(obs["w_ego"] - obs["w_ego_flipgt"]) > tol_w or abs(obs["w_map"] - obs["w_map_flipgt"]) > tol_w_map):
        return (f"APH weight depends on the sign of the ground truth's quaternion: {obs['w_ego']} vs {obs['w_ego_flipgt']} "
                f"(map {obs['w_map']} vs {obs['w_map_flipgt']}) ({what})")
    if abs(obs["w_map"] - obs["w_ego"]) > 2 * tol_w_map or abs(obs["w_map"] - want) > 2 * tol_w_map:
        return f"APH weight depends on the frame: ego {obs['w_ego']}, map {obs['w_map']}, 1 - d/pi = {want} ({what})"
    for w in (obs["w_ego"], obs["w_map"]):
        if not 0.0 <= w <= 1.0:
            return f"APH weight {w} outside [0, 1] ({what})"
    if circ_diff(obs["hb_est"], obs["hb_est_map"]) > 2 * tol_a_map or circ_diff(obs["hb_gt"], obs["hb_gt_map"]) > 2 * tol_a_map:
        return f"BEV heading depends on the frame: estimate {obs['hb_est']} vs {obs['hb_est_map']}, ground truth {obs['hb_gt']} vs {obs['hb_gt_map']} ({what})"
    # signed error: wrap(yaw_gt - yaw_est)
    true_err = math.atan2(math.sin(y2 - y1), math.cos(y2 - y1))
    for k, sgn in (("err_ego", 1), ("err_ego_swapped", -1), ("err_ego_flip", 1), ("err_map", 1), ("err_map_swapped", -1),
                   ("err_map_flip", 1), ("err_ego_flipgt", 1), ("err_map_flipgt", 1)):
        if k not in obs:
            continue
        e = obs[k]
        tol = 2 * tol_a_map if "map" in k else tol_a
        if abs(e) > math.pi + 1e-12:
            return f"yaw error {e} outside [-pi, pi] ({k}; {what})"
        if abs(abs(e) - d) > tol:
            return f"|yaw error| = {abs(e)} != d = {d} ({k}; {what})"
        if WRAP_MARGIN + tol < d < math.pi - WRAP_MARGIN - tol and e * sgn * true_err < 0:
            return f"yaw error {e} has the wrong sign, expected {sgn * true_err} ({k}; {what})"
    return None


class TiltCorr(Corr):
    """Stream 2: small roll/pitch on the objects (and on the ego pose).  No model (yaw extraction from a
    general quaternion needs atan2): the Coq term is `true`, only the oracle speaks, with tolerance."""
    name = "tilted"
    header = HEADER
    requires = ["Model/Heading.vo", "Base/CaseUtil.vo"]
    shard = 2000

    def cases(self, tier, rng):
        out = []
        for _ in range(300 if tier == "quick" else 4000):
            u = rng.random()
            y1 = rng.uniform(-math.pi, math.pi)
            y2 = y1 if u < 0.05 else (y1 + math.pi if u < 0.1 else rng.uniform(-math.pi, math.pi))
            out.append({"y1": y1, "y2": y2, "rp1": [rng.uniform(-0.05, 0.05), rng.uniform(-0.05, 0.05)],
                        "rp2": [rng.uniform(-0.05, 0.05), rng.uniform(-0.05, 0.05)], "s1": rng.choice((1, -1)), "s2": rng.choice((1, -1)),
                        "ey": rng.uniform(-math.pi, math.pi), "erp": [rng.uniform(-0.02, 0.02), rng.uniform(-0.02, 0.02)] if rng.random() < 0.5 else [0.0, 0.0],
                        "t": [rng.uniform(-100, 100), rng.uniform(-100, 100), rng.uniform(-2, 2)],
                        "pos": [rng.uniform(-50, 50), rng.uniform(-50, 50), rng.uniform(-1, 1)]})
            if rng.random() < 0.2:
                # continuous yaws OFF the k*pi/24 grid with no tilt at all (objects and ego pose): judged with the exact tolerance, not 0.06 rad;
                # a share of them within 0.02 rad of the +-pi seam, where a fold constant slightly off pi would show
                c = out[-1]
                c["rp1"], c["rp2"], c["erp"], c["untilted"] = [0.0, 0.0], [0.0, 0.0], [0.0, 0.0], True
                u = rng.random()
                if u < 0.3:        # nearly opposite headings: d = pi - delta, delta log-uniform in [1e-6, 0.02]
                    delta = 10 ** rng.uniform(-6, -1.7)
                    y2 = c["y1"] + rng.choice((1, -1)) * (math.pi - delta)
                    c["y2"] = math.atan2(math.sin(y2), math.cos(y2))
                elif u < 0.55:     # a yaw next to the +-pi seam of atan2, the other one across the seam or anywhere
                    c["y1"] = rng.choice((1, -1)) * (math.pi - 10 ** rng.uniform(-6, -1.7))
                    c["y2"] = rng.choice((-c["y1"], -math.copysign(math.pi - 10 ** rng.uniform(-6, -1.7), c["y1"]), rng.uniform(-math.pi, math.pi)))
                elif u < 0.8:
                    # the seam of the MAP frame under a rotated ego: the ego yaw is chosen so that the estimate's MAP yaw is +-(pi - d1) and the
                    # ground truth lies across the cut, by a little (a turn of d1 + d2) or by a lot; in the ego frame the pair is nowhere near +-pi
                    d1, side = 10 ** rng.uniform(-6, -1.7), rng.choice((1, -1))
                    ey = side * (math.pi - d1) - c["y1"]
                    c["ey"] = math.atan2(math.sin(ey), math.cos(ey))
                    turn = rng.choice((d1 + 10 ** rng.uniform(-6, -1.7), rng.uniform(0.05, 3.0)))
                    y2 = c["y1"] + side * turn
                    c["y2"] = math.atan2(math.sin(y2), math.cos(y2))
                    c["map_seam"] = True
        # ACCUMULATION: ONE TPMetricsAph instance and ONE TransformDict (entry updated in place) serve 3-5 frames of a moving ego in which a tracked
        # pair (persistent uuids) turns: every frame's weight / heading / error must be that frame's (oracle only, no tilt)
        for _ in range(40 if tier == "quick" else 400):
            steps = []
            y1, y2 = rng.uniform(-math.pi, math.pi), rng.uniform(-math.pi, math.pi)
            ey = rng.uniform(-math.pi, math.pi)
            for k in range(rng.randint(3, 5)):
                steps.append({"y1": y1, "y2": y2, "s1": rng.choice((1, -1)), "s2": rng.choice((1, -1)), "ey": ey,
                              "t": [rng.uniform(-100, 100), rng.uniform(-100, 100), rng.uniform(-2, 2)],
                              "pos": [rng.uniform(-50, 50), rng.uniform(-50, 50), rng.uniform(-1, 1)]})
                wrap = lambda x: math.atan2(math.sin(x), math.cos(x))  # noqa: E731
                y1, y2 = wrap(y1 + rng.uniform(-0.6, 0.6)), wrap(y2 + rng.uniform(-0.6, 0.6))
                ey = wrap(ey + rng.choice((rng.uniform(-0.5, 0.5), rng.uniform(-math.pi, math.pi))))
            out.append({"kind": "seq", "steps": steps})
        return out

    def _run_seq(self, case):
        from perception_eval.common.schema import FrameID
        from perception_eval.evaluation.metrics.detection.tp_metrics import TPMetricsAph
        from perception_eval.evaluation.result.object_result import DynamicObjectWithPerceptionResult as R

        aph, reg, out = TPMetricsAph(), None, []
        for st in case["steps"]:
            ego2map, fresh = _scene(None, st["t"], _qz(st["ey"]))
            if reg is None:
                reg = fresh
            else:
                reg[(FrameID.BASE_LINK, FrameID.MAP)] = ego2map            # the live registry follows the ego
            est, gt, est_m, gt_m = _pair_objects(st["pos"], _qz(st["y1"]), _qz(st["y2"]), st["s1"], st["s2"], ego2map, uuids=("t0", "g0"))
            r, rm = R(est, gt), R(est_m, gt_m, transforms=reg)
            out.append({"w_ego": float(aph.get_value(r)), "w_map": float(aph.get_value(rm)),
                        "err_ego": float(r.heading_error[2]), "err_map": float(rm.heading_error[2]),
                        "hb_est": float(est.get_heading_bev()), "hb_gt": float(gt.get_heading_bev()),
                        "hb_est_map": float(est_m.get_heading_bev(reg)), "hb_gt_map": float(gt_m.get_heading_bev(reg))})
        return {"steps": out}

    def _oracle_seq(self, case, obs):
        for k, (st, o) in enumerate(zip(case["steps"], obs["steps"])):
            d = circ_diff(st["y1"], st["y2"])
            what = f"frame {k} of {len(case['steps'])} through one TPMetricsAph instance and one registry: yaws {st['y1']!r}, {st['y2']!r}, ego yaw {st['ey']!r}"
            full = dict(o, w_ego_swapped=o["w_ego"], w_ego_flip=o["w_ego"], w_map_swapped=o["w_map"], w_map_flip=o["w_map"])
            m = check_pair(full, st["y1"], st["y2"], d, TOL, TOL, what)
            if m:
                return m
        return None

    def run_impl(self, case):
        if case.get("kind") == "seq":
            return self._run_seq(case)
        q1 = _quat_zyx(case["y1"], case["rp1"][1], case["rp1"][0])
        q2 = _quat_zyx(case["y2"], case["rp2"][1], case["rp2"][0])
        ego2map, tr = _scene(None, case["t"], _quat_zyx(case["ey"], case["erp"][1], case["erp"][0]))
        est, gt, est_m, gt_m = _pair_objects(case["pos"], q1, q2, case["s1"], case["s2"], ego2map)
        fest, fgt, fest_m, fgt_m = _pair_objects(case["pos"], q1, q2, -case["s1"], -case["s2"], ego2map)
        return _observe(est, gt, est_m, gt_m, tr, fest, fest_m, fgt, fgt_m)

    def coq_term(self, case, obs):
        return "true"

    def oracle(self, case, obs):
        if case.get("kind") == "seq":
            return self._oracle_seq(case, obs)
        y1, y2 = case["y1"], case["y2"]
        d = circ_diff(y1, y2)
        if case.get("untilted"):
            return check_pair(obs, y1, y2, d, TOL, TOL, f"yaws {y1!r}, {y2!r} (no roll/pitch), signs {case['s1']},{case['s2']}, ego yaw {case['ey']!r}")
        msg = check_pair(obs, y1, y2, d, TILT_TOL / math.pi, TILT_TOL, f"yaws {y1:.4f}, {y2:.4f} with roll/pitch {case['rp1']}, {case['rp2']}")
        if msg:
            return msg
        # exact clause for tilted boxes (ego frame): 1 - d/pi with d the difference of the two orientations' own yaw angles
        dy = circ_diff(obs["yaw_est"], obs["yaw_gt"])
        for k in ("w_ego", "w_ego_swapped", "w_ego_flip"):
            if abs(obs[k] - (1.0 - dy / math.pi)) > 1e-9:
                return (f"{k} = {obs[k]} but 1 - d/pi of the two yaw angles ({obs['yaw_est']}, {obs['yaw_gt']}) is {1.0 - dy / math.pi} "
                        f"(roll/pitch {case['rp1']}, {case['rp2']})")
        return None

    def nontrivial(self, case, obs):
        return True

    def distribution(self, cases, obs):
        seq = [c for c in cases if c.get("kind") == "seq"]
        cases = [c for c in cases if c.get("kind") != "seq"]

        def wrap(x):
            return math.atan2(math.sin(x), math.cos(x))

        def map_straddle(c):
            return abs(c["y1"] - c["y2"]) <= math.pi < abs(wrap(c["y1"] + c["ey"]) - wrap(c["y2"] + c["ey"]))
        return {"tilted": sum(1 for c in cases if not c.get("untilted")), "untilted_continuous_yaws_exact_tolerance": sum(1 for c in cases if c.get("untilted")),
                "untilted_yaw_within_0.02rad_of_the_seam": sum(1 for c in cases if c.get("untilted") and math.pi - abs(c["y1"]) < 0.021),
                "untilted_nearly_opposite_headings": sum(1 for c in cases if c.get("untilted") and 0 < math.pi - circ_diff(c["y1"], c["y2"]) < 0.021),
                "untilted_map_yaw_within_0.02rad_of_the_seam_under_a_rotated_ego": sum(1 for c in cases if c.get("map_seam")),
                "untilted_pairs_straddling_the_pi_cut_in_the_map_frame_only": sum(1 for c in cases if c.get("untilted") and map_straddle(c)),
                "of_those_turned_by_less_than_0.05rad": sum(1 for c in cases if c.get("untilted") and map_straddle(c) and circ_diff(c["y1"], c["y2"]) < 0.05),
                "sequences_through_one_TPMetricsAph_and_one_registry": len(seq), "frames_in_those_sequences": sum(len(c["steps"]) for c in seq)}


class C09(Prop):
    id = "C09"
    props_file = "Props/C09.v"
    # redundant tie (core.gen_tie): these functions, translated from the source on every run, equal the hand model for all inputs
    gen_tie_theorems = ['GenTie_get_heading_error__clip', 'GenTie_get_heading_error__clip_range', 'GenTie_get_heading_error__clip_range_outside', 'GenTie_get_heading_error', 'GenTie_get_heading_bev', 'GenTie_get_heading_bev_wraps', 'GenTie_get_heading_bev_wraps_outside', 'GenTie_TPMetricsAp_get_value', 'GenTie_TPMetricsAph_get_value', 'GenTie_TPMetricsAph_get_value_outside']
    gen_files = []
    design_ref = "DESIGN.md section 4, C09"
    technique = ("Rocq proof over a piecewise-linear model in pi-units (case split on every comparison + linear arithmetic); in-Coq "
                 "correspondence with TPMetricsAph.get_value, heading_error, get_heading_bev and Ap.tp_list on the full 48x48 yaw grid")
    level_text = ("Theorems (Props/C09.v, closed under the global context) for ALL rational yaws in (-1,1] (pi-units), both quaternion signs, "
                  "ego-frame and map-frame branches: APH weight = 1 - d with d = min(|q1-q2|, 2-|q1-q2|), in [0,1], symmetric, 1 iff equal, "
                  "0 iff opposite, independent of the quaternion sign and of a common rotation by any ego yaw with wrap-around; BEV heading "
                  "through the real map->base_link transform equals the ego-frame heading; yaw error in [-1,1], |error| = d for either "
                  "order, and est + error = gt on the circle; Ap.tp_list = running sums of 1 - d. The model is compared on every run with the "
                  "implementation on all 48x48 grid pairs (k*pi/24), random signs, ego and map frames with random ego pose, within 1e-9. Oracle-only: continuous "
                  "off-grid yaws without tilt within 1e-9; sign of the ground truth's quaternion alone; yaw error with a negated estimate in the map frame.")
    level_note = ("Trusted: Coq kernel+vm_compute; that pyquaternion's yaw_pitch_roll[0] returns the yaw (atan2 does not exist in Q): "
                  "validated numerically on the grid and, with roll/pitch <= 0.05 rad, by the oracle-only stream (tolerance 0.06 rad); "
                  "angles at the +-pi wrap are compared on the circle.")
    rule = ("heading: regression pairs (negative yaw, wrap) x 4 sign combinations, every (k1,k2) of the 48x48 grid with random signs / ego "
            "yaw / translation, Ap with 1-8 results in both frames; tilted: random yaws with roll/pitch <= 0.05 (oracle only), 20% of them with NO tilt "
            "(continuous off-grid yaws; 30% of those nearly opposite, d = pi - delta with delta log-uniform in [1e-6, 0.02]; 25% with a yaw that close to the +-pi seam) judged within 1e-9; the weight and the yaw error are also observed with the "
            "ground truth's quaternion negated alone and, in the map frame, with the estimate's negated (oracle only); non-trivial = different yaws; "
            "heading: 46 neighbouring pairs (1 / 2 grid steps apart) under the ego yaw that puts them across the +-pi cut of the MAP frame only; tilted: a quarter of the untilted cases "
            "choose the ego yaw so that the estimate's MAP yaw is within [1e-6, 0.02] of +-pi and the ground truth lies across the cut (by as little, or by a lot); 40 (quick) / 400 sequences of 3-5 frames "
            "through ONE TPMetricsAph instance and ONE TransformDict whose entry is updated in place while the ego moves and a tracked pair (persistent uuids) turns: every frame's "
            "weight, yaw error and BEV heading (ego and map) is judged (oracle only)")
    assumptions = ["orientations are yaw-only in the model (roll/pitch stream is oracle-only)",
                   "pyquaternion yaw extraction and Quaternion(matrix=...) validated numerically, not proved"]
    not_proved = ["yaw_pitch_roll[0] = atan2(...) returns the yaw of the quaternion", "orientations with roll/pitch (tolerance-tested only)",
                  "roll and pitch components of heading_error (same _clip, not stated)"]

    def correspondences(self):
        return [HeadingCorr(), TiltCorr()]


READY = True
PROP = C09()
