"""C11 -- classification pairs objects by identity and scores them by label agreement.

Correspondence: the real `get_object_results` (ROI-less DynamicObject2D; generic labels -> _get_object_results_with_id,
traffic-light labels -> _get_object_results_for_tlr with both uuid_matching_first settings), `ClassificationAccuracy`,
`divide_objects`/`divide_objects_to_num` + `ClassificationMetricsScore` + `_summarize` are run on generated object lists;
the Coq model (Model/Classif.v) has to reproduce the pair list (indices, in order), the error kind, all counts and all
scores (1e-9; inf and nan distinguished).  The oracle restates the property directly on the implementation's output."""
import itertools
import math
from fractions import Fraction

from harness.lib.core import Corr, Prop, blit, llit, qlit

GEN_LABELS = ["CAR", "BICYCLE", "PEDESTRIAN", "MOTORBIKE", "UNKNOWN", "FP", "ANIMAL"]
# (two of the ordinary members have long values sharing their first 16 characters: labels are compared whole, not by a prefix)
TLR_LABELS = ["GREEN", "RED", "YELLOW_STRAIGHT_LEFT", "UNKNOWN", "YELLOW_STRAIGHT_RIGHT", "FP", "TRAFFIC_LIGHT"]
FP_LABEL = 5
EXTRA_LABEL = 6             # ANIMAL / TRAFFIC_LIGHT: members the target lists never hold
RARE_LABELS = (0, 3, 4, 5)  # contains UNKNOWN of either family (index 4 / 3) and the FP label
# spellings a dataset / a perception stack uses for one and the same label (Label.name is free text; Label.__eq__ is on .label only)
GEN_NAMES = {"CAR": ["car", "vehicle.car", "CAR"], "BICYCLE": ["bicycle", "vehicle.bicycle"], "PEDESTRIAN": ["pedestrian", "stroller",
             "pedestrian.adult"], "MOTORBIKE": ["motorbike", "vehicle.motorcycle"], "UNKNOWN": ["unknown", "movable_object.debris"],
             "FP": ["false_positive", "FP"], "ANIMAL": ["animal"]}
TLR_NAMES = {"GREEN": ["green", "crosswalk_green"], "RED": ["red", "crosswalk_red"], "YELLOW_STRAIGHT_LEFT": ["yellow_straight_left", "amber"],
             "UNKNOWN": ["unknown", "crosswalk_unknown"], "YELLOW_STRAIGHT_RIGHT": ["yellow_straight_right", "yellow-straight-right"], "FP": ["false_positive"],
             "TRAFFIC_LIGHT": ["traffic_light"]}
ATTRS = [None, [], ["occluded"], ["vehicle.parked", "red"], ["car"]]
POLICIES = [None, "DEFAULT", "ALLOW_UNKNOWN", "ALLOW_ANY"]
# camera index -> FrameID member name; index 1 is the integrated traffic-light camera the generic matcher tests for
CAMS = ["CAM_FRONT", "CAM_TRAFFIC_LIGHT", "CAM_BACK", "CAM_TRAFFIC_LIGHT_NEAR", "CAM_TRAFFIC_LIGHT_FAR"]
TL_CAM = 1
TOL = 1e-9

RULE = ("streams: boundary (hand-written: no GT, no estimates, all same label, duplicated labels, estimates without partner, leftover on "
        "CAM_TRAFFIC_LIGHT, same uuid on several cameras, FP-labelled GT), malformed (uuid None, duplicated (uuid, camera)), exhaustive small "
        "(len(ests)+len(gts)<=3 over 3 uuids x 2 cameras x 3 labels), all 3^(ne+ng) label assignments on two fixed (uuid, camera) structures "
        "for 3..4 x 3..4 objects (both exhaustive streams are sampled in the quick tier), random <=4x4, random up to 30x30 on 1..3 of 5 cameras; "
        "each object set is run as generic, traffic-light, traffic-light+uuid_matching_first with a random target-label list (subset, "
        "permutation, duplicate, empty) and flat or per-frame nested result lists; representation streams on every object set: a random "
        "subset of the GROUND TRUTHS carries a ROI (none / all / the first / only later ones; estimates stay ROI-less, the dataset-vs-"
        "classifier shape), label names are drawn from aliases of the same label with random attribute lists (Label equality is on the "
        "label only), and get_object_results receives the manager's keyword arguments (matching_label_policy incl. ALLOW_UNKNOWN / "
        "ALLOW_ANY, matchable_thresholds, target_labels), none of which may change an identity-based pairing or the label agreement; "
        "the small space over the label set {0, UNKNOWN, FP} (<= 1 object exhaustively, 3 objects sampled; thorough: <= 2 / 1000) and "
        "boundary cases with ANIMAL / TRAFFIC_LIGHT members; non-trivial = at least one real pair and >= 3 objects; "
        "edge streams: in 12 % of the cases ONE uuid is spelled as the empty string on both sides (falsy but not None: must pair like any "
        "other uuid, never be rejected), and a quarter of the result lists reach ClassificationAccuracy / ClassificationMetricsScore nested "
        "the way get_scene_result nests them (a leading empty list + three per-frame lists, so that lists beyond the second count); "
        "second correspondence: ClassificationAccuracy on hand-made result lists with arbitrary num_ground_truth")

_cache = {}


def _env():
    if not _cache:
        from perception_eval.common.evaluation_task import EvaluationTask
        from perception_eval.common.label import AutowareLabel, Label, TrafficLightLabel
        from perception_eval.common.object2d import DynamicObject2D
        from perception_eval.common.schema import FrameID
        from perception_eval.evaluation.matching import MatchingLabelPolicy
        from perception_eval.evaluation.matching.objects_filter import divide_objects, divide_objects_to_num
        from perception_eval.evaluation.metrics.classification import ClassificationMetricsScore
        from perception_eval.evaluation.metrics.classification.accuracy import ClassificationAccuracy
        from perception_eval.evaluation.result.object_result import get_object_results

        _cache.update(
            task=EvaluationTask.CLASSIFICATION2D, Label=Label, Obj=DynamicObject2D,
            gen=[AutowareLabel[n] for n in GEN_LABELS], tlr=[TrafficLightLabel[n] for n in TLR_LABELS],
            cams=[FrameID[n] for n in CAMS], tlcam=FrameID.CAM_TRAFFIC_LIGHT,
            divide=divide_objects, divide_num=divide_objects_to_num, Score=ClassificationMetricsScore,
            Acc=ClassificationAccuracy, get=get_object_results, Policy=MatchingLabelPolicy,
        )
    return _cache


def _score(x):
    if isinstance(x, float) and math.isnan(x):
        return "nan"
    if x == float("inf"):
        return "inf"
    return float(x)


def _acc_obs(a):
    return {"n": a.objects_results_num, "g": a.num_ground_truth, "tp": a.num_tp, "fp": a.num_fp,
            "s": [_score(a.accuracy), _score(a.precision), _score(a.recall), _score(a.f1score)]}


def _nest(lst, k):
    """the manager hands per-frame lists (a list of lists); k=None: flat list, "mgr": the shape get_scene_result builds -- a leading empty
    list followed by one list per frame (three here, so that lists beyond the second matter), else split at k"""
    if k is None:
        return lst
    if k == "mgr":
        n = len(lst)
        return [[], lst[: n // 3], lst[n // 3: (2 * n) // 3], lst[(2 * n) // 3:]]
    k = min(k, len(lst))
    return [lst[:k], lst[k:]]


# ------------------------------------------------------------------------------------------------
# generators
# ------------------------------------------------------------------------------------------------
def _valid_side(objs):
    keys = [(o[0], o[1]) for o in objs]
    return all(o[0] is not None for o in objs) and len(set(keys)) == len(keys)


def _rand_side(rng, n, cams, labels, uuids, p_dup=0.0, p_none=0.0):
    out, used = [], set()
    for _ in range(n):
        for _try in range(50):
            u, c = rng.choice(uuids), rng.choice(cams)
            if (u, c) not in used or rng.random() < p_dup:
                break
        used.add((u, c))
        if rng.random() < p_none:
            u = None
        out.append([u, c, rng.choice(labels)])
    return out


def _targets(rng, labels_used):
    r = rng.random()
    pool = list(range(5))
    if r < 0.5:
        t = pool[:]
    elif r < 0.8:
        t = rng.sample(pool, rng.randint(1, 4))
    elif r < 0.9:
        t = sorted(set(labels_used) - {FP_LABEL}) or [0]
    elif r < 0.95:
        t = rng.sample(pool, 2)
        t = t + [t[0]]          # a duplicated target label
    else:
        t = []
    rng.shuffle(t)
    return t


_SPELL = ["7", "near_7", "far_7", "_near_7", "_far_7", "near7", "far7", "_near7", "light_7", "light_near_7", "_7", "7_", "near_", "_near"]


def _spell(u):
    """injective spelling of the case's uuid numbers whose concatenation with a camera name collides across cameras"""
    return _SPELL[u % len(_SPELL)] + "x" * (u // len(_SPELL))


def _mk(rng, mode, uf, ests, gts, stream):
    used = [o[2] for o in ests + gts]
    n = len(ests)
    case = {"mode": mode, "uf": uf, "ests": ests, "gts": gts, "targets": _targets(rng, used),
            "nest": rng.choice([None, None, 0, 1, max(1, n // 2), n, "mgr", "mgr"]), "stream": stream}
    # a falsy-but-valid uuid: ONE uuid of the case is spelled "" on both sides (the matchers must only reject None)
    us = sorted({o[0] for o in ests + gts if o[0] is not None})
    case["u_empty"] = rng.choice(us) if us and rng.random() < 0.12 else None
    # uuids that read like the tail of a camera name (round 5 of DESIGN section 9): (CAM_TRAFFIC_LIGHT, "near_7") and
    # (CAM_TRAFFIC_LIGHT_NEAR, "7") are different tracks on different cameras although "<camera>_<uuid>" is one string
    case["u_spell"] = rng.random() < 0.35
    # representation: which ground truths carry a ROI (a dataset annotation has one, the classifier's output has none), the
    # spelling of every label name / its attributes (seeded), and the keyword arguments the manager hands to get_object_results
    r = rng.random()
    if r < 0.35:
        case["gt_roi"] = []
    elif r < 0.6:
        case["gt_roi"] = list(range(len(gts)))
    else:
        case["gt_roi"] = sorted(set(([0] if gts and rng.random() < 0.6 else []) + [j for j in range(len(gts)) if rng.random() < 0.4]))
    case["rep"] = rng.randrange(1 << 30) if rng.random() < 0.7 else None       # None: canonical names, default attributes
    if rng.random() < 0.6:
        case["kw"] = {"policy": rng.choice(POLICIES), "thr": rng.choice([None, [0.0], [1.0, 0.125], [1000.0]]), "tl": rng.random() < 0.7}
    else:
        case["kw"] = None
    return case


def _three_modes(rng, ests, gts, stream):
    return [_mk(rng, "generic", False, ests, gts, stream), _mk(rng, "tlr", False, ests, gts, stream),
            _mk(rng, "tlr", True, ests, gts, stream)]


def small_space(max_total, labels=(0, 1, 2)):
    """every pair of lists with len(ests)+len(gts) <= max_total over uuid in {0,1,2} x 2 cameras x the labels (3 by default),
    unique (uuid, camera) per side"""
    opts = [[u, c, l] for u in range(3) for c in (0, 1) for l in labels]
    for ne in range(0, max_total + 1):
        for ng in range(0, max_total + 1 - ne):
            for es in itertools.product(opts, repeat=ne):
                if not _valid_side(es):
                    continue
                for gs in itertools.product(opts, repeat=ng):
                    if _valid_side(gs):
                        yield [list(o) for o in es], [list(o) for o in gs]


LABEL_STRUCTS = [
    # (estimate (uuid, camera) list, ground-truth (uuid, camera) list): labels are enumerated exhaustively
    ([(0, 1), (1, 1), (2, 1), (3, 1)], [(3, 1), (2, 1), (1, 1), (0, 1)]),
    ([(0, 1), (1, 1), (2, 3), (3, 3)], [(1, 1), (0, 1), (3, 3), (7, 3)]),
]


def label_space(ne, ng):
    """every assignment of 3 labels to ne estimates and ng ground truths over the fixed (uuid, camera) structures"""
    for es_s, gs_s in LABEL_STRUCTS:
        for labs in itertools.product(range(3), repeat=ne + ng):
            yield ([[u, c, labs[i]] for i, (u, c) in enumerate(es_s[:ne])],
                   [[u, c, labs[ne + j]] for j, (u, c) in enumerate(gs_s[:ng])])


def boundary_cases(rng):
    out = []
    B = "boundary"
    e3 = [[0, 1, 0], [1, 1, 1], [2, 1, 2]]
    out += _three_modes(rng, e3, [], B)                              # no GT
    out += _three_modes(rng, [], [[0, 1, 0], [1, 1, 1]], B)          # no estimates
    out += _three_modes(rng, [], [], B)
    out += _three_modes(rng, [[i, 1, 1] for i in range(4)], [[i, 1, 1] for i in range(4)], B)         # all same label, perfect
    out += _three_modes(rng, [[i, 1, 1] for i in range(4)], [[3 - i, 1, 1] for i in range(4)], B)     # same label, uuids reversed
    out += _three_modes(rng, [[i, 0, 1] for i in range(4)], [[i + 10, 0, 1] for i in range(4)], B)    # same label, no common uuid
    out += _three_modes(rng, [[0, 1, 0], [1, 1, 0], [2, 1, 1]], [[0, 1, 1], [1, 1, 0], [2, 1, 0]], B)  # duplicate labels, crossing
    out += _three_modes(rng, [[0, 1, 1], [1, 1, 0]], [[0, 1, 0], [1, 1, 1]], B)                       # swap: label stage vs uuid stage
    out += _three_modes(rng, [[0, 0, 0], [1, 0, 1], [2, 0, 2], [3, 0, 0]], [[0, 0, 0]], B)            # estimates without partner
    out += _three_modes(rng, [[0, 0, 0], [1, 1, 1], [2, 0, 2]], [[0, 0, 0]], B)                       # leftover on CAM_TRAFFIC_LIGHT
    out += _three_modes(rng, [[0, 0, 0], [1, 1, 1], [2, 0, 2]], [[0, 0, 0], [1, 1, 2]], B)            # TL-camera estimate is paired: leftovers kept
    out += _three_modes(rng, [[0, 0, 0], [0, 1, 0], [0, 2, 0]], [[0, 1, 0], [0, 2, 1], [0, 3, 0]], B)  # same uuid on several cameras
    out += _three_modes(rng, [[0, 3, 1], [1, 4, 1]], [[0, 4, 1], [1, 3, 1]], B)                       # same label, other camera only
    out += _three_modes(rng, [[0, 1, 1], [1, 1, 2]], [[0, 1, FP_LABEL], [1, 1, 2]], B)                # GT with the FP label
    out += _three_modes(rng, [[0, 1, FP_LABEL]], [[0, 1, FP_LABEL]], B)
    out += _three_modes(rng, [[0, 1, 4], [1, 1, 4]], [[0, 1, 4], [1, 1, 3]], B)                       # labels outside a small target list
    for c in out:
        if c["ests"] and c["ests"][0][2] == 4:
            c["targets"] = [0, 3]
    # a member no target list holds (ANIMAL / TRAFFIC_LIGHT, the label of traffic lights outside classification), alone and mixed
    out += _three_modes(rng, [[0, 1, EXTRA_LABEL], [1, 1, 0]], [[0, 1, EXTRA_LABEL], [1, 1, EXTRA_LABEL]], B)
    out += _three_modes(rng, [[0, 1, EXTRA_LABEL], [1, 1, 3]], [[1, 1, 4], [0, 1, 3], [2, 1, FP_LABEL]], B)   # UNKNOWN of either family
    # the realistic shape: every ground truth annotated with a ROI, ROI-less estimates, the manager's keyword arguments
    for c in _three_modes(rng, [[0, 1, 0], [1, 1, 1], [2, 1, 2]], [[1, 1, 1], [0, 1, 2], [3, 1, 0]], B):
        c["gt_roi"], c["kw"] = [0, 1, 2], {"policy": "ALLOW_ANY", "thr": [0.0], "tl": True}
        out.append(c)
    for c in _three_modes(rng, [[0, 1, 0], [1, 1, 1]], [[1, 1, 0], [0, 1, 1]], B):
        c["gt_roi"], c["kw"], c["rep"] = [0], {"policy": "ALLOW_UNKNOWN", "thr": [1000.0], "tl": False}, 12345
        out.append(c)
    return out


def rare_label_cases(rng, n, full_upto):
    """the small space over the label set {0, 3, 4, FP} (UNKNOWN of both families and the FP label): every pair of lists with
    at most `full_upto` objects, plus n random ones with 3 objects"""
    out = []
    for es, gs in small_space(full_upto, RARE_LABELS):
        out += _three_modes(rng, es, gs, "exhaustive-small-rare-labels")
    opts = [[u, c, l] for u in range(3) for c in (0, 1) for l in RARE_LABELS]
    k = 0
    while k < n:
        ne = rng.randint(0, 3)
        es, gs = [list(rng.choice(opts)) for _ in range(ne)], [list(rng.choice(opts)) for _ in range(3 - ne)]
        if _valid_side(es) and _valid_side(gs):
            out += _three_modes(rng, es, gs, "exhaustive-small-rare-labels(sampled)")
            k += 1
    return out


def malformed_cases(rng, n_rand):
    out = []
    M = "malformed"
    out += _three_modes(rng, [[0, 1, 0], [None, 1, 1]], [[0, 1, 0]], M)
    out += _three_modes(rng, [[0, 1, 0]], [[0, 1, 0], [None, 1, 1]], M)
    out += _three_modes(rng, [[None, 1, 0]], [], M)                      # early return: never looked at
    out += _three_modes(rng, [], [[None, 1, 0]], M)
    out += _three_modes(rng, [[0, 1, 0], [1, 1, 0]], [[0, 1, 0], [0, 1, 1]], M)     # duplicate uuid in GT
    out += _three_modes(rng, [[0, 1, 0], [0, 1, 1]], [[0, 1, 0], [1, 1, 1]], M)     # duplicate uuid in estimates
    out += _three_modes(rng, [[0, 1, 0], [0, 1, 0]], [[0, 1, 0], [0, 1, 0]], M)
    out += _three_modes(rng, [[0, 1, 0], [0, 1, 1]], [[5, 1, 0], [6, 1, 1]], M)     # duplicates that never match
    out += _three_modes(rng, [[0, 1, 0], [0, 1, 0], [None, 1, 0]], [[0, 1, 0]], M)  # remove fails before the None is seen?
    for _ in range(n_rand):
        ne, ng = rng.randint(1, 5), rng.randint(1, 5)
        cams = rng.sample(range(5), rng.randint(1, 2))
        p_none = rng.choice([0.0, 0.15])
        es = _rand_side(rng, ne, cams, range(3), range(3), p_dup=0.6, p_none=p_none)
        gs = _rand_side(rng, ng, cams, range(3), range(3), p_dup=0.6, p_none=p_none)
        out += _three_modes(rng, es, gs, M)
    return out


def random_cases(rng, n_small, n_large):
    out = []
    for _ in range(n_small):      # uniform over the <=4 x <=4, 3 labels, 2 cameras space
        ne, ng = rng.randint(0, 4), rng.randint(0, 4)
        cams = rng.choice([[0, 1], [1, 3], [1, 1]])
        es = _rand_side(rng, ne, cams, range(3), range(4))
        gs = _rand_side(rng, ng, cams, range(3), range(4))
        out += _three_modes(rng, es, gs, "small")
    for _ in range(n_large):
        ne, ng = rng.randint(0, 30), rng.randint(0, 30)
        cams = rng.sample(range(5), rng.randint(1, 3))
        labels = list(range(rng.randint(1, 5)))
        if rng.random() < 0.1:
            labels.append(FP_LABEL)
        nu = rng.randint(2, 24)
        es = _rand_side(rng, ne, cams, labels, range(nu))
        gs = _rand_side(rng, ng, cams, labels, range(nu))
        out += _three_modes(rng, es, gs, "typical")
    return out


# ------------------------------------------------------------------------------------------------
# independent restatement helpers (oracle)
# ------------------------------------------------------------------------------------------------
def max_matching(ne, ng, edge):
    """size of a maximum bipartite matching (augmenting paths)"""
    match_g = [-1] * ng

    def aug(i, seen):
        for j in range(ng):
            if edge(i, j) and j not in seen:
                seen.add(j)
                if match_g[j] < 0 or aug(match_g[j], seen):
                    match_g[j] = i
                    return True
        return False

    return sum(1 for i in range(ne) if aug(i, set()))


def brute_max(ne, ng, edge, admissible):
    """max number of `edge` pairs over ALL one-to-one pairings made of admissible pairs (enumeration)"""
    best = 0

    def rec(i, used, cnt):
        nonlocal best
        if i == ne:
            best = max(best, cnt)
            return
        rec(i + 1, used, cnt)
        for j in range(ng):
            if j not in used and admissible(i, j):
                rec(i + 1, used | {j}, cnt + (1 if edge(i, j) else 0))

    rec(0, frozenset(), 0)
    return best


def _undef(x):
    return x in ("inf", "nan")


def _cmp_score(name, got, want, check_range=True):
    """want: Fraction or None (undefined)"""
    if want is None:
        return None if _undef(got) else f"{name} is {got} but its denominator is 0 (expected undefined)"
    if _undef(got):
        return f"{name} is {got} but the counting definition gives {float(want)}"
    if abs(Fraction(got) - want) > Fraction(1, 10 ** 9):
        return f"{name} = {got} but the counting definition gives {float(want)}"
    if check_range and not (-1e-12 <= got <= 1.0 + 1e-12):
        return f"{name} = {got} is outside [0, 1]"
    return None


def _expected_scores(n, g, tp, summary=False):
    """the counting definitions: accuracy TP/(N+G-TP), precision TP/N, recall TP/G, F1 2TP/(N+G)"""
    acc = Fraction(tp, n + g - tp) if n + g - tp != 0 else None
    pre = Fraction(tp, n) if n != 0 else None
    rec = Fraction(tp, g) if g != 0 else None
    f1 = Fraction(2 * tp, n + g) if (pre is not None and rec is not None and tp != 0) else None
    return acc, pre, rec, f1


class PipelineCorr(Corr):
    name = "pipeline"
    header = ("From Coq Require Import List Bool Arith ZArith QArith.\nFrom PE Require Import Base.CaseUtil Model.Classif.\n"
              "Import ListNotations.\nOpen Scope nat_scope.\n")
    requires = ["Model/Classif.vo", "Base/CaseUtil.vo"]
    shard = 300

    # ---------------------------------------------------------------- cases
    def cases(self, tier, rng):
        out = []
        out += boundary_cases(rng)
        if tier == "quick":
            out += malformed_cases(rng, 60)
            space = list(small_space(3))
            for es, gs in rng.sample(space, 250):
                out += _three_modes(rng, es, gs, "exhaustive-small(sampled)")
            for es, gs in rng.sample(list(label_space(4, 4)), 150) + rng.sample(list(label_space(3, 4)), 50):
                out += _three_modes(rng, es, gs, "all-labels-4x4(sampled)")[1:]
            out += [c for c in rare_label_cases(rng, 60, 1) if rng.random() < 0.6]
            out += random_cases(rng, 450, 150)
        else:
            out += malformed_cases(rng, 600)
            for es, gs in small_space(3):
                out += _three_modes(rng, es, gs, "exhaustive-small")
            for ne, ng in ((4, 4), (3, 4), (3, 3)):
                for es, gs in label_space(ne, ng):
                    out += _three_modes(rng, es, gs, "all-labels-%dx%d" % (ne, ng))[1:]
            out += rare_label_cases(rng, 1000, 2)
            out += random_cases(rng, 5000, 1500)
        return out

    # ---------------------------------------------------------------- implementation
    def _objects(self, case, side):
        E = _env()
        import random

        labels = E["tlr"] if case["mode"] == "tlr" else E["gen"]
        names = TLR_NAMES if case["mode"] == "tlr" else GEN_NAMES
        rep = case.get("rep")
        r = None if rep is None else random.Random(2 * rep + (side == "gts"))
        rois = set(case.get("gt_roi") or []) if side == "gts" else set()
        objs = []
        for k, (u, c, l) in enumerate(case[side]):
            lab = labels[l]
            if r is None:
                label = E["Label"](lab, lab.value)
            else:
                attrs = r.choice(ATTRS)
                name = r.choice(names[lab.name])
                label = E["Label"](lab, name) if attrs is None else E["Label"](lab, name, list(attrs))
            roi = (8 * k, 4, 10 + k, 10) if k in rois else None
            uuid = None if u is None else ("" if u == case.get("u_empty") else (_spell(u) if case.get("u_spell") else f"u{u}"))
            objs.append(E["Obj"](100, E["cams"][c], 1.0, label, roi, uuid))
        return objs

    def run_impl(self, case):
        E = _env()
        es, gs = self._objects(case, "ests"), self._objects(case, "gts")
        es0, gs0 = list(es), list(gs)
        labels = E["tlr"] if case["mode"] == "tlr" else E["gen"]
        kw = {}
        if case.get("kw"):         # what the manager passes besides the objects: none of it may change an identity-based pairing
            k = case["kw"]
            if k["policy"] is not None:
                kw["matching_label_policy"] = E["Policy"][k["policy"]]
            if k["thr"] is not None:
                kw["matchable_thresholds"] = list(k["thr"])
            if k["tl"]:
                kw["target_labels"] = [labels[t] for t in case["targets"]]
        try:
            # "when uuid-first matching is requested": not passing the argument at all must behave like passing False
            if case["uf"] or (len(es) + len(gs)) % 2 == 0:
                res = E["get"](E["task"], es, gs, uuid_matching_first=case["uf"], **kw)
            else:
                res = E["get"](E["task"], es, gs, **kw)
        except RuntimeError as e:
            if "uuid of estimation and ground truth must be set" in str(e):
                return {"error": "uuid_none"}
            raise
        except ValueError as e:
            if "list.remove" in str(e):
                return {"error": "remove"}
            raise
        eidx = {id(o): i for i, o in enumerate(es0)}
        gidx = {id(o): i for i, o in enumerate(gs0)}
        pairs = [[eidx[id(r.estimated_object)], None if r.ground_truth_object is None else gidx[id(r.ground_truth_object)]]
                 for r in res]
        obs = {"pairs": pairs}
        obs["lists_unchanged"] = (len(es) == len(es0) and all(a is b for a, b in zip(es, es0))
                                  and len(gs) == len(gs0) and all(a is b for a, b in zip(gs, gs0)))
        targets = [labels[t] for t in case["targets"]]
        obs["all"] = _acc_obs(E["Acc"](_nest(res, case["nest"]), len(gs), targets))
        d = E["divide"](res, targets)
        nd = E["divide_num"](gs, targets)
        d = {k: _nest(v, case["nest"]) for k, v in d.items()}
        sc = E["Score"](d, nd, targets)
        obs["labels"] = [_acc_obs(a) for a in sc.accuracies]
        obs["summary"] = [_score(x) for x in sc._summarize()]
        obs["is_label_correct"] = [bool(r.is_label_correct) for r in res]
        obs["tlcam"] = [bool(o.frame_id == E["tlcam"]) for o in es0]
        return obs

    # ---------------------------------------------------------------- Coq side
    @staticmethod
    def _obj(o):
        u, c, l = o
        us = "None" if u is None else f"(Some {u})"
        return f"(mkObj {us} {c} {l} {blit(c == TL_CAM)} {blit(l == FP_LABEL)})"

    @staticmethod
    def _sc(x):
        if x == "nan":
            return "None"
        if x == "inf":
            return "(Some None)"
        return f"(Some (Some {qlit(x)}))"

    def _acc(self, a):
        s = a["s"]
        return f'(({a["n"]}, {a["g"]}, {a["tp"]}, {a["fp"]}), ({self._sc(s[0])}, {self._sc(s[1])}, {self._sc(s[2])}, {self._sc(s[3])}))'

    def _args(self, case):
        return (f'{blit(case["mode"] == "tlr")} {blit(case["uf"])} {llit([self._obj(o) for o in case["ests"]])} '
                f'{llit([self._obj(o) for o in case["gts"]])}')

    def coq_term(self, case, obs):
        tg = llit([str(t) for t in case["targets"]])
        if "error" in obs:
            k = "ErrUuidNone" if obs["error"] == "uuid_none" else "ErrRemove"
            return f"(check_pipeline {self._args(case)} {tg} (inl {k}) None [] None)"
        pairs = llit([f'({i}, {"None" if j is None else f"Some {j}"})' for i, j in obs["pairs"]])
        s = obs["summary"]
        summ = f"(Some ({self._sc(s[0])}, {self._sc(s[1])}, {self._sc(s[2])}, {self._sc(s[3])}))"
        return (f'(check_pipeline {self._args(case)} {tg} (inr {pairs}) (Some {self._acc(obs["all"])}) '
                f'{llit([self._acc(a) for a in obs["labels"]])} {summ})')

    def coq_debug(self, case, obs):
        tg = llit([str(t) for t in case["targets"]])
        return (f'(match get_object_results {self._args(case)} with Error e => (inl e, [], None) | Ok R => '
                f'(inr (ids_of R), accuracies {tg} R {llit([self._obj(o) for o in case["gts"]])}, '
                f'Some (summarize (accuracies {tg} R {llit([self._obj(o) for o in case["gts"]])}))) end)')

    # ---------------------------------------------------------------- oracle
    def oracle(self, case, obs):
        es, gs = case["ests"], case["gts"]
        ne, ng = len(es), len(gs)
        tlr, uf = case["mode"] == "tlr", case["uf"]
        any_none = any(o[0] is None for o in es + gs)
        valid = _valid_side(es) and _valid_side(gs)
        if "error" in obs:
            if ne == 0 or ng == 0:
                return f"raised {obs['error']} although one list is empty"
            if obs["error"] == "uuid_none":
                return None if any_none else "uuid-None error raised although every uuid is set"
            if valid or tlr:
                return ("list.remove failed (an object would be used twice) on "
                        + ("well-formed input" if valid else "traffic-light input, whose matcher guards every removal"))
            return None          # generic matcher, duplicated (uuid, camera): rejection is the observed behaviour
        if any_none and ne > 0 and ng > 0:
            return "objects without uuid were accepted (the matchers must reject a uuid of None)"
        pairs = obs["pairs"]
        if not obs["lists_unchanged"]:
            return "the caller's object lists were modified"
        for i, j in pairs:
            if not (0 <= i < ne) or (j is not None and not 0 <= j < ng):
                return f"result ({i},{j}) refers to an unknown object"
        used_e = [i for i, _ in pairs]
        used_g = [j for _, j in pairs if j is not None]
        if len(set(used_e)) != len(used_e):
            return f"an estimate is used in more than one result: {pairs}"
        if len(set(used_g)) != len(used_g):
            return f"a ground truth is paired more than once: {pairs}"
        same_cam = lambda i, j: es[i][1] == gs[j][1]
        same_uuid = lambda i, j: es[i][0] == gs[j][0]
        same_label = lambda i, j: es[i][2] == gs[j][2]
        real = [(i, j) for i, j in pairs if j is not None]
        for i, j in real:
            if not same_cam(i, j):
                return f"estimate {i} (camera {CAMS[es[i][1]]}) is paired with ground truth {j} (camera {CAMS[gs[j][1]]})"
        fps = [i for i, j in pairs if j is None]
        paired_e = {i for i, _ in real}
        paired_g = {j for _, j in real}
        if not tlr:
            if valid:
                want = sorted((i, j) for i in range(ne) for j in range(ng) if same_uuid(i, j) and same_cam(i, j))
                if sorted(real) != want:
                    return f"generic pairing {sorted(real)} differs from 'same uuid and same camera' {want}"
                rest = [i for i in range(ne) if i not in paired_e]
                if ng == 0:
                    want_fp = rest
                else:
                    want_fp = [] if any(es[i][1] == TL_CAM for i in rest) else rest
                if fps != want_fp:
                    return f"ground-truth-less results {fps} differ from the unpaired estimates expected to be reported {want_fp}"
        else:
            if ng > 0 and fps:
                return f"traffic-light matcher reported ground-truth-less results {fps}"
            if ng == 0 and fps != list(range(ne)):
                return f"without ground truth every estimate must be reported, got {fps}"
            stage1 = (lambda i, j: same_label(i, j) and same_cam(i, j) and same_uuid(i, j)) if uf else \
                     (lambda i, j: same_label(i, j) and same_cam(i, j))
            stage2 = lambda i, j: same_uuid(i, j) and same_cam(i, j)
            for i, j in real:
                if not (stage1(i, j) or stage2(i, j)):
                    return f"pair ({i},{j}) satisfies neither the label rule nor the uuid rule"
            flags = [stage1(i, j) for i, j in real]
            if sorted(flags, reverse=True) != flags:
                return f"label-stage pairs are not all reported before uuid-stage pairs: {list(zip(real, flags))}"
            for i, j in real:
                if not stage1(i, j) and same_label(i, j):
                    return f"pair ({i},{j}) has equal labels but was only found by the uuid stage"
            # nothing pairable is left over
            for i in range(ne):
                for j in range(ng):
                    if i not in paired_e and j not in paired_g and (stage1(i, j) or stage2(i, j)):
                        return f"estimate {i} and ground truth {j} are both unused although they are pairable"
            # maximality of the number of label-correct pairs over all admissible one-to-one same-camera pairings
            admissible = (lambda i, j: stage2(i, j)) if uf else (lambda i, j: same_cam(i, j))
            edge = lambda i, j: admissible(i, j) and same_label(i, j)
            got = sum(1 for i, j in real if same_label(i, j))
            best = max_matching(ne, ng, edge)
            if ne <= 4 and ng <= 4:
                b2 = brute_max(ne, ng, edge, admissible)
                if b2 != best:
                    return f"harness self-check failed: brute force {b2} vs matching {best}"
            if got != best:
                return f"{got} label-correct pairs, but {best} are possible under the rule"
        # ------------- scores: counting definitions over the observed pairs
        def correct(i, j):
            return j is not None and (gs[j][2] == FP_LABEL or same_label(i, j))

        if obs["is_label_correct"] != [correct(i, j) for i, j in pairs]:
            return "is_label_correct differs from label agreement of the pair"
        tp = sum(1 for i, j in pairs if correct(i, j))
        a = obs["all"]
        if (a["n"], a["g"], a["tp"], a["fp"]) != (len(pairs), ng, tp, len(pairs) - tp):
            return f"counts {a} differ from N={len(pairs)} G={ng} TP={tp} FP={len(pairs) - tp}"
        for nm, got, want in zip(("accuracy", "precision", "recall", "F1"), a["s"], _expected_scores(len(pairs), ng, tp)):
            m = _cmp_score(nm, got, want)
            if m:
                return m
        if (ng > 0 and len(pairs) == ng and tp == ng) and any(_undef(x) or abs(x - 1.0) > TOL for x in a["s"]):
            return f"perfect classification but scores are {a['s']}"
        # per label and summary (labels as divided for the manager)
        T = case["targets"]
        tot = [0, 0, 0]
        if len(obs["labels"]) != len(T):
            return "number of per-label accuracies differs from the number of target labels"
        for t, la in zip(T, obs["labels"]):
            bucket = []
            for i, j in pairs:
                l = es[i][2]
                if l not in T:
                    if j is None:
                        continue
                    l = gs[j][2]
                if l == t:
                    bucket.append((i, j))
            n_t, g_t = len(bucket), sum(1 for g in gs if g[2] == t)
            tp_t = sum(1 for i, j in bucket if correct(i, j))
            if (la["n"], la["g"], la["tp"], la["fp"]) != (n_t, g_t, tp_t, n_t - tp_t):
                return f"label {t}: counts {la} differ from N={n_t} G={g_t} TP={tp_t}"
            for nm, got, want in zip(("accuracy", "precision", "recall", "F1"), la["s"], _expected_scores(n_t, g_t, tp_t)):
                m = _cmp_score(f"label {t} {nm}", got, want, check_range=tp_t <= g_t)
                if m:
                    return m
            tot[0] += n_t
            tot[1] += g_t
            tot[2] += tp_t
        for nm, got, want in zip(("accuracy", "precision", "recall", "F1"), obs["summary"], _expected_scores(*tot)):
            m = _cmp_score(f"summary {nm}", got, want, check_range=tot[2] <= tot[1])
            if m:
                return m
        return None

    def nontrivial(self, case, obs):
        return "pairs" in obs and any(j is not None for _, j in obs["pairs"]) and len(case["ests"]) + len(case["gts"]) >= 3

    def distribution(self, cases, obs):
        d = {"streams": {}, "modes": {}, "errors": {}, "sizes": {"<=4x4": 0, "5..12": 0, ">12": 0},
             "with_pairs": 0, "with_gtless_results": 0, "tlr_with_uuid_stage_pairs": 0, "perfect": 0,
             "summary_f1": {"number": 0, "inf": 0, "nan": 0}, "undefined_scores_in_frame_accuracy": 0,
             "gt_with_roi": {"none": 0, "first_gt": 0, "only_later_gts": 0}, "aliased_names_or_attributes": 0,
             "keyword_arguments": {"not_passed": 0, "policy_DEFAULT_or_absent": 0, "policy_ALLOW_UNKNOWN": 0, "policy_ALLOW_ANY": 0,
                                   "matchable_thresholds": 0, "target_labels": 0},
             "objects_labelled_unknown": 0, "objects_labelled_fp": 0, "objects_labelled_animal_or_traffic_light": 0,
             "one_uuid_spelled_as_the_empty_string": 0, "results_nested_like_the_manager_does(empty+3_lists)": 0}
        for c, o in zip(cases, obs):
            d["one_uuid_spelled_as_the_empty_string"] += c.get("u_empty") is not None
            d["uuids_spelled_like_camera_name_tails"] = d.get("uuids_spelled_like_camera_name_tails", 0) + bool(c.get("u_spell"))
            d["results_nested_like_the_manager_does(empty+3_lists)"] += c.get("nest") == "mgr"
            roi = c.get("gt_roi") or []
            d["gt_with_roi"]["none" if not roi else ("first_gt" if 0 in roi else "only_later_gts")] += 1
            d["aliased_names_or_attributes"] += c.get("rep") is not None
            k = c.get("kw")
            if not k:
                d["keyword_arguments"]["not_passed"] += 1
            else:
                d["keyword_arguments"]["policy_" + (k["policy"] if k["policy"] in ("ALLOW_UNKNOWN", "ALLOW_ANY") else "DEFAULT_or_absent")] += 1
                d["keyword_arguments"]["matchable_thresholds"] += k["thr"] is not None
                d["keyword_arguments"]["target_labels"] += bool(k["tl"])
            unk = 3 if c["mode"] == "tlr" else 4
            labs = [x[2] for x in c["ests"] + c["gts"]]
            d["objects_labelled_unknown"] += labs.count(unk)
            d["objects_labelled_fp"] += labs.count(FP_LABEL)
            d["objects_labelled_animal_or_traffic_light"] += labs.count(EXTRA_LABEL)
            d["streams"][c["stream"]] = d["streams"].get(c["stream"], 0) + 1
            m = c["mode"] + ("+uuid_first" if c["uf"] else "")
            d["modes"][m] = d["modes"].get(m, 0) + 1
            n = max(len(c["ests"]), len(c["gts"]))
            d["sizes"]["<=4x4" if n <= 4 else ("5..12" if n <= 12 else ">12")] += 1
            if "error" in o:
                d["errors"][o["error"]] = d["errors"].get(o["error"], 0) + 1
                continue
            if "pairs" not in o:
                continue
            real = [(i, j) for i, j in o["pairs"] if j is not None]
            d["with_pairs"] += bool(real)
            d["with_gtless_results"] += any(j is None for _, j in o["pairs"])
            if c["mode"] == "tlr" and any(c["ests"][i][2] != c["gts"][j][2] for i, j in real):
                d["tlr_with_uuid_stage_pairs"] += 1
            a = o["all"]
            d["perfect"] += bool(a["g"] > 0 and a["n"] == a["g"] == a["tp"])
            d["undefined_scores_in_frame_accuracy"] += any(_undef(x) for x in a["s"])
            f = o["summary"][3]
            d["summary_f1"]["nan" if f == "nan" else ("inf" if f == "inf" else "number")] += 1
        return d


class ScoreCorr(Corr):
    """ClassificationAccuracy on hand-made result lists with an arbitrary num_ground_truth (independent of the
    matchers; covers num_ground_truth different from the number of GT objects and TP > num_ground_truth)."""
    name = "accuracy"
    header = PipelineCorr.header
    requires = PipelineCorr.requires
    shard = 300

    def cases(self, tier, rng):
        out = []
        n = 150 if tier == "quick" else 3000
        for k in range(n):
            m = rng.randint(0, 3) if k % 3 == 0 else rng.randint(0, 12)
            res = []
            for _ in range(m):
                el = rng.randint(0, 2)
                r = rng.random()
                gl = None if r < 0.25 else (el if r < 0.7 else rng.choice([0, 1, 2, FP_LABEL]))
                res.append([el, gl])
            out.append({"results": res, "num_gt": rng.choice([0, 0, 1, m, m, max(0, m - 1), m + 1, rng.randint(0, 15)]),
                        "nest": rng.choice([None, 0, 1, m, "mgr"])})
        out.insert(0, {"results": [], "num_gt": 0, "nest": None})
        out.insert(1, {"results": [], "num_gt": 3, "nest": None})
        out.insert(2, {"results": [[0, 0]], "num_gt": 0, "nest": None})
        out.insert(3, {"results": [[0, 1]], "num_gt": 1, "nest": 1})
        return out

    def run_impl(self, case):
        from perception_eval.evaluation.result.object_result import DynamicObjectWithPerceptionResult

        E = _env()

        def mk(l):
            lab = E["gen"][l]
            return E["Obj"](100, E["cams"][0], 1.0, E["Label"](lab, lab.value), None, "u")

        res = [DynamicObjectWithPerceptionResult(mk(el), None if gl is None else mk(gl)) for el, gl in case["results"]]
        a = E["Acc"](_nest(res, case["nest"]), case["num_gt"], [E["gen"][0]])
        obs = _acc_obs(a)
        obs["results_keys"] = list(a.results.keys())
        obs["results_vals"] = [_score(v) if k != "predict_num" else v for k, v in a.results.items()]
        return obs

    def coq_term(self, case, obs):
        P = PipelineCorr()

        def o(l):
            return f"(mkObj (Some 0) 0 {l} false {blit(l == FP_LABEL)})"

        rs = llit([f'({o(el)}, {"None" if gl is None else "Some " + o(gl)})' for el, gl in case["results"]])
        return f'(check_acc (classification_accuracy (mk_results {rs}) {case["num_gt"]}) {P._acc(obs)})'

    def oracle(self, case, obs):
        res, g = case["results"], case["num_gt"]
        n = len(res)
        tp = sum(1 for el, gl in res if gl is not None and (gl == FP_LABEL or gl == el))
        if (obs["n"], obs["g"], obs["tp"], obs["fp"]) != (n, g, tp, n - tp):
            return f"counts {obs} differ from N={n} G={g} TP={tp} FP={n - tp}"
        if obs["results_keys"] != ["predict_num", "Accuracy", "Precision", "Recall", "F1score"] or \
                obs["results_vals"] != [n] + obs["s"]:
            return "ClassificationAccuracy.results does not report its own scores"
        for nm, got, want in zip(("accuracy", "precision", "recall", "F1"), obs["s"], _expected_scores(n, g, tp)):
            if want is None:
                if not _undef(got):
                    return f"{nm} is {got} but its denominator is 0"
                continue
            if _undef(got) or abs(Fraction(got) - want) > Fraction(1, 10 ** 9):
                return f"{nm} = {got} but the counting definition gives {float(want)}"
            if tp <= g and not (-1e-12 <= got <= 1.0 + 1e-12):
                return f"{nm} = {got} is outside [0, 1]"
        if g > 0 and n == g == tp and any(_undef(x) or abs(x - 1.0) > TOL for x in obs["s"]):
            return f"perfect classification but scores are {obs['s']}"
        return None

    def nontrivial(self, case, obs):
        return len(case["results"]) >= 2

    def distribution(self, cases, obs):
        d = {"tp_gt_num_gt": 0, "undefined_any": 0, "nested_input": 0}
        for c, o in zip(cases, obs):
            d["tp_gt_num_gt"] += o["tp"] > o["g"]
            d["undefined_any"] += any(_undef(x) for x in o["s"])
            d["nested_input"] += c["nest"] is not None
        d["nested_like_the_manager_does(empty+3_lists)"] = sum(1 for c in cases if c["nest"] == "mgr")
        return d


class C11(Prop):
    id = "C11"
    props_file = "Props/C11.v"
    # redundant tie (core.gen_tie): these functions, translated from the source on every run, equal the hand model for all inputs
    gen_tie_theorems = ['GenTie_calculate_tp_fp', 'GenTie_calculate_tp_fp_outside', 'GenTie_calculate_accuracy', 'GenTie_calculate_precision_recall', 'GenTie_calculate_f1score', 'GenTie_calculate_f1score_outside', 'GenTie_ClassificationAccuracy___init__', 'GenTie_ClassificationAccuracy___init___outside', 'GenTie__summarize', 'GenTie__get_fp_object_results', 'GenTie__get_object_results_with_id', 'GenTie__get_object_results_for_tlr']
    gen_files = []
    design_ref = "DESIGN.md section 4, C11"
    technique = ("Rocq proof about an executable Gallina model of the two identity-based matchers (nested loops with list copies, "
                 "`in` tests and `remove` by identity) and of the classification scores; in-Coq correspondence against "
                 "get_object_results / ClassificationAccuracy / divide_objects / ClassificationMetricsScore._summarize")
    level_text = ("Theorems (Props/C11.v, closed under the global context) for ALL object lists: generic matcher = 'same uuid and same "
                  "camera', each object used at most once, leftover rule (unique non-null uuid per side and camera); traffic-light "
                  "matcher one-to-one, same camera, label(+uuid) stage before uuid stage with nothing pairable left by either stage, and its "
                  "number of equally-labelled pairs is >= that of EVERY admissible one-to-one same-camera pairing (first-fit over "
                  "key-equality blocks is maximum) -- these need no uniqueness hypothesis; objects without uuid are rejected, guarded removes "
                  "never fail; accuracy/precision/recall/F1 of ClassificationAccuracy and of _summarize equal TP/(N+G-TP), TP/N, TP/G, "
                  "2TP/(N+G) with inf/nan exactly at zero denominators, lie in [0,1] when TP <= G (proved to hold for the matchers' outputs, "
                  "per label and pooled), and are 1 in the perfect case. Model and code are compared on every run: pair lists in order, "
                  "error kinds, all counts and scores (1e-9), end to end through divide_objects and ClassificationMetricsScore, with "
                  "ground truths that carry a ROI, aliased label names / attributes and the manager's keyword arguments among the inputs "
                  "(the oracle demands the same pairs and label agreement whatever they are).")
    level_note = ("Trusted: Coq kernel + vm_compute; the hand-written model Model/Classif.v tied by this run's correspondence; uuids encoded "
                  "injectively as numbers, cameras/labels by enum index, the facts `frame_id == CAM_TRAFFIC_LIGHT` and `semantic_label.is_fp()` "
                  "read from the objects by the harness. Objects are identified by their position in the caller's list (DynamicObject2D has no "
                  "__eq__, so `in`/`remove` are by identity); a list containing the same Python object twice is outside the model.")
    rule = RULE
    assumptions = [
        "generic matcher (id_match_spec): every uuid is set and (uuid, camera) is unique within the estimates and within the ground truths",
        "traffic-light theorems: none beyond 'the matcher returned' (it returns whenever every uuid is set: C11_tlr_succeeds)",
        "range theorems: TP <= number of ground truths (proved for the matchers' outputs; per label it needs that no ground truth carries "
        "the FP label, which belongs to FP validation, not classification)",
        "evaluation task CLASSIFICATION2D (not FP validation), MatchingLabelPolicy.DEFAULT (the policy the two matchers construct results with)",
        "all objects of a call belong to one label family (the dispatch looks at estimated_objects[0] only)",
    ]
    not_proved = [
        "float rounding of the score divisions (compared with the exact rationals within 1e-9 on every generated case)",
        "lists that contain the same Python object twice (identity = position is assumed)",
        "that filter_objects/divide_objects are applied consistently upstream (divide_objects is modelled and compared, not specified here)",
        "ClassificationMetricsScore.__str__ formatting",
    ]
    runtime_observations = ["the caller's estimate / ground-truth lists are not modified by get_object_results (checked on every case)"]

    def correspondences(self):
        return [PipelineCorr(), ScoreCorr()]


READY = True
PROP = C11()
