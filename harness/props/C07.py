"""C07 -- evaluation results do not depend on the coordinate frame of the objects."""
import math

from harness.lib.core import Corr, Prop, llit, olit, qlit
from harness.props import manager_common as MC

# bounds / thresholds chosen OFF the k/8 lattice so that no decision of a lattice scene sits within
# tolerance of its boundary (the property quantifies over such configurations only)
CRIT = [
    {"max_x_position_list": [30.0625] * 4, "max_y_position_list": [30.0625] * 4},
    {"max_x_position_list": [100.0625] * 4, "max_y_position_list": [100.0625] * 4},
    {"max_distance_list": [35.03] * 4, "min_distance_list": [3.03] * 4},
    {"max_x_position_list": [12.5625, 30.0625, 20.0625, 30.0625], "max_y_position_list": [30.0625, 12.5625, 20.0625, 30.0625]},
]
PF = [1.03, 2.03, 0.53]
CFG = dict(center_distance_thresholds=[[1.03] * 4, [2.03] * 4], plane_distance_thresholds=[2.03], iou_2d_thresholds=[0.503],
           iou_3d_thresholds=[0.503], max_x_position=100.0625, max_y_position=100.0625)
TOL = 1e-9
# evaluation-config overrides of the MANAGER (PerceptionEvaluationManager._filter_objects: range filter of estimates and ground truth before
# matching, matchable radii, uuid filter of the results); index 0 = the historical wide setting under which only the critical filter binds
MGR = [
    {},
    {"max_x_position": 30.0625, "max_y_position": 30.0625},
    {"max_x_position": None, "max_y_position": None, "max_distance": 35.03, "min_distance": 3.03},
    {"max_x_position": 30.0625, "max_y_position": 100.0625, "max_matchable_radii": [2.03] * 4},
    {"max_x_position": 100.0625, "max_y_position": 30.0625, "target_uuids": ["g0", "g2", "g3", "g5"]},
]
WIDE_CRIT = 1       # index in CRIT of the filter that removes nothing: the manager-level filter is then the only one acting


def jitter(frames):
    """make every estimate's offset unique (dyadic, exact) so that no two candidate scores tie"""
    k = 0
    for fr in frames:
        for e in fr["ests"]:
            k += 1
            e["pos"] = [e["pos"][0] + k / 1024, e["pos"][1] - (k % 7) / 2048, e["pos"][2]]
        for j, g in enumerate(fr["gts"]):
            g["pos"] = [g["pos"][0] + (j + 1) / 4096, g["pos"][1], g["pos"][2]]


AXIS4 = [(1.0, 0.0), (0.0, 1.0), (-1.0, 0.0), (0.0, -1.0)]


def int_scene(rng, K):
    """a scene whose MAP-frame positions are integers (handed over as Python ints) while the ego pose has a fractional translation and an
    axis-aligned yaw, so that the ego-relative coordinates are fractional: exercises position arguments that are not floats"""
    frames = []
    for i in range(K):
        c, s = rng.choice(AXIS4)
        t = [rng.randint(-80, 80) + rng.choice([0.5, 0.25, 0.375]), rng.randint(-80, 80) + rng.choice([0.5, 0.625, 0.875]), 0.5]
        gts, ests = [], []

        def ego_of(n):   # R^T (n - t), exact on the dyadic lattice
            dx, dy = n[0] - t[0], n[1] - t[1]
            return [c * dx + s * dy, -s * dx + c * dy, n[2] - t[2]]
        for j in range(rng.randint(1, 3)):
            ex, ey = -24 + 24 * j + rng.randint(-3, 3), rng.choice([-25, -9, 8, 27]) + rng.randint(-2, 2)
            n = [round(c * ex - s * ey + t[0]), round(s * ex + c * ey + t[1]), 1]
            lab = rng.choice(MC.TARGETS)
            size = [rng.randint(8, 24) / 8, rng.randint(16, 40) / 8, 1.5]
            gts.append({"label": lab, "pos": ego_of(n), "map_int": n, "size": size, "yaw_cs": rng.choice(AXIS4), "uuid": f"g{j}", "points": 10})
            if rng.random() < 0.85:
                d = rng.choice([(0, 0), (1, 0), (0, 1), (3, 0), (0, -2)])
                ne = [n[0] + d[0], n[1] + d[1], 1]
                ests.append({"label": lab, "pos": ego_of(ne), "map_int": ne, "size": list(size), "yaw_cs": gts[-1]["yaw_cs"], "conf": None, "uuid": f"t{j}"})
        frames.append({"index": i, "t": 1000000 + 100000 * i, "gts": gts, "ests": ests, "ego": {"t": t, "cs": (c, s)}})
    return frames


SMALL_TURNS = [(63 / 65, 16 / 65), (63 / 65, -16 / 65), (255 / 257, 32 / 257), (255 / 257, -32 / 257), (4095 / 4097, 128 / 4097), (4095 / 4097, -128 / 4097)]


def straddle(frames, rng):
    """NUMERIC EDGE: in the MAP frame every ground truth heads along -x exactly (yaw = +-pi: ego yaw + object yaw = pi) and its estimate is turned
    by +-14 / +-7 / +-1.8 degrees, so the pair straddles the +-pi cut of the yaw angle in the map rendering but not in the ego rendering (where
    both yaws are pi - ego yaw and a little more or less)"""
    for fr in frames:
        ec, es = fr["ego"]["cs"]
        by_uuid = {}
        for g in fr["gts"]:
            g["yaw_cs"] = (-ec, es)
            by_uuid["t" + g["uuid"][1:]] = g
        for e in fr["ests"]:
            g = by_uuid.get(e["uuid"])
            if g is not None:
                (gc, gs), (dc, ds) = g["yaw_cs"], rng.choice(SMALL_TURNS)
                e["yaw_cs"] = (gc * dc - gs * ds, gs * dc + gc * ds)


def straddles_in_map_only(fr):
    """number of (estimate, its ground truth) pairs whose yaws are less than pi apart as numbers in the ego frame but more than pi apart in the map frame"""
    def wrap(x):
        return math.atan2(math.sin(x), math.cos(x))

    ey = math.atan2(fr["ego"]["cs"][1], fr["ego"]["cs"][0])
    G = {"t" + g["uuid"][1:]: g for g in fr["gts"]}
    n = 0
    for e in fr["ests"]:
        g = G.get(e["uuid"])
        if g is not None and "yaw_cs" in e and "yaw_cs" in g:
            a, b = math.atan2(e["yaw_cs"][1], e["yaw_cs"][0]), math.atan2(g["yaw_cs"][1], g["yaw_cs"][0])
            n += abs(a - b) <= math.pi and abs(wrap(a + ey) - wrap(b + ey)) > math.pi
    return n


def run_scene(case, frame):
    mgr = MC.make_manager(case["task"], frame, tag="c07" + frame, **dict(CFG, **MGR[case.get("mgr", 0)]))
    out = []
    prev = None
    # ACCUMULATION: half of the scenes hand ONE CriticalObjectFilterConfig / PerceptionPassFailConfig instance to every frame (as an application that
    # builds its configs once does) while the ego moves from frame to frame; the others build fresh instances per frame
    shared = (MC.critical_cfg(mgr, CRIT[case["crit"]]), MC.passfail_cfg(mgr, PF[case["pf"]])) if case.get("shared_cfg") else None
    for fr in case["frames"]:
        if case.get("derived_frames") and prev is not None:
            gt = MC.make_gt_frame(dict(fr, _prev_gt_frame=prev), frame, name=fr.get("name"), tf_mode="derived")
        else:
            gt = MC.make_gt_frame(fr, frame, name=fr.get("name"), tf_mode=case.get("ego_tf", "pose"))
        prev = gt
        ests = MC.make_estimates(fr, frame)
        cc, pc = shared if shared is not None else (MC.critical_cfg(mgr, CRIT[case["crit"]]), MC.passfail_cfg(mgr, PF[case["pf"]]))
        r = mgr.add_frame_result(fr["t"], gt, ests, cc, pc)
        out.append((r, gt))
    return mgr, out


def _canon_angles(err):
    """an error of exactly +-pi (opposite headings) is the same physical difference with either sign; rounding picks one: report +pi"""
    return tuple(abs(v) if abs(abs(v) - math.pi) < 1e-9 else v for v in err)


def pair_key(x):
    return (x.estimated_object.uuid, x.ground_truth_object.uuid if x.ground_truth_object is not None else None)


def frame_fp(r, gt_frame, frame):
    from perception_eval.common.schema import FrameID
    from perception_eval.evaluation.metrics.detection.tp_metrics import TPMetricsAph

    pf = r.pass_fail_result
    tf = gt_frame.transforms
    pairs = {}
    for x in r.object_results:
        k = pair_key(x)
        d = {"center": x.center_distance.value, "plane": x.plane_distance.value, "iou2d": x.iou_2d.value, "iou3d": x.iou_3d.value,
             "aph_w": TPMetricsAph().get_value(x), "heading_error": _canon_angles(x.heading_error) if x.ground_truth_object is not None else None}
        pairs[str(k)] = d
    ego_rel = {}
    for x in r.object_results:
        o = x.estimated_object
        p = tf.transform((o.frame_id, FrameID.BASE_LINK), o.state.position)
        ego_rel["e:" + o.uuid] = [float(v) for v in p]
    for g in r.frame_ground_truth.objects:
        p = tf.transform((g.frame_id, FrameID.BASE_LINK), g.state.position)
        ego_rel["g:" + g.uuid] = [float(v) for v in p]
    return {
        "results": sorted(str(pair_key(x)) for x in r.object_results),
        "tp": sorted(str(pair_key(x)) for x in pf.tp_object_results), "fp": sorted(str(pair_key(x)) for x in pf.fp_object_results),
        "fn": sorted(g.uuid for g in pf.fn_objects), "tn": sorted(g.uuid for g in pf.tn_objects),
        "critical_gt": sorted(g.uuid for g in r.frame_ground_truth.objects),
        "pairs": pairs, "ego_rel": ego_rel, "score": MC.score_fingerprint(r.metrics_score),
    }


def close(a, b, tol=TOL):
    if a is None or b is None:
        return a is None and b is None
    if isinstance(a, (list, tuple)):
        return len(a) == len(b) and all(close(x, y, tol) for x, y in zip(a, b))
    if isinstance(a, dict):
        return a.keys() == b.keys() and all(close(a[k], b[k], tol) for k in a)
    if isinstance(a, (int, float)) and isinstance(b, (int, float)):
        return abs(a - b) <= tol * max(1.0, abs(a), abs(b))
    return a == b


def first_diff(a, b, path=""):
    if isinstance(a, dict) and isinstance(b, dict):
        for k in sorted(set(a) | set(b)):
            if k not in a or k not in b:
                return f"{path}/{k} present on one side only"
            d = first_diff(a[k], b[k], f"{path}/{k}")
            if d:
                return d
        return None
    if isinstance(a, (list, tuple)) and isinstance(b, (list, tuple)):
        if len(a) != len(b):
            return f"{path}: lengths {len(a)} vs {len(b)}"
        for i, (x, y) in enumerate(zip(a, b)):
            d = first_diff(x, y, f"{path}[{i}]")
            if d:
                return d
        return None
    return None if close(a, b) else f"{path}: {a} (ego frame) vs {b} (map frame)"


class RenderingCorr(Corr):
    name = "two_renderings"
    header = ("From Coq Require Import List Bool ZArith String.\nFrom PE Require Import Base.CaseUtil Model.Geom2 Model.FrameInv.\n"
              "Import ListNotations.\nOpen Scope Q_scope.\n"
              "Definition tol := 1 # 10000000.\n"
              "Definition ocl (a : option Q) (b : Q) : bool := match a with Some x => Qleb (qabs (x - b)) (tol * (1 + qabs b)) | None => false end.\n"
              "Definition p3cl (p : Q * Q * Q) (x y z : Q) : bool := let '(a, b, c) := p in Qclose tol a x && Qclose tol b y && Qclose tol c z.\n"
              "(* one pair: ego-frame boxes e, g; observed center^2 and plane^2 in the ego run and in the map run *)\n"
              "Definition check_pair (m : motion) (e g : box) (c_ego c_map p_ego p_map : Q) : bool :=\n"
              "  ocl (Some (center_sq e g)) c_ego && ocl (Some (center_sq (move_box m e) (move_box m g))) c_map &&\n"
              "  ocl (plane_sq_box e g) p_ego && ocl (plane_sq_map m e g) p_map.\n"
              "(* one object: its ego coordinates, and what the implementation recovered from the map rendering *)\n"
              "Definition check_obj (m : motion) (x y z rx ry rz : Q) : bool := p3cl (unmove_pt3 m (move_pt3 m (x, y, z))) rx ry rz.\n")
    requires = ["Model/FrameInv.vo", "Base/CaseUtil.vo"]
    shard = 8
    parallel_min = 4

    def cases(self, tier, rng):
        out = []
        n = 40 if tier == "quick" else 400
        for ci in range(n):
            task = "tracking" if ci % 3 == 2 else "detection"
            K = rng.randint(1, 3) if task == "detection" else rng.randint(2, 4)
            shared_cfg = ci % 2 == 0 or ci % 8 == 1        # (ci % 8 == 1: combined with frames derived by deepcopy + in-place update)
            if shared_cfg and ci % 4 == 0:
                K = max(K, 3)                # >= 3 frames through one manager and one pair of config instances, the ego moving in between
            fp_gt = rng.random() < 0.4       # scenes with FP-labelled ground truth (TN / matched-FP bookkeeping in both renderings)
            frames = [MC.gen_frame(rng, i, uuid_prefix="g", fp_gt_prob=0.25 if fp_gt else 0.0) for i in range(K)]
            if task == "tracking":  # persistent tracks: same uuids across frames, small motion
                for i in range(1, K):
                    frames[i]["gts"] = [dict(g, pos=[g["pos"][0] + 0.5, g["pos"][1] + 0.25, g["pos"][2]]) for g in frames[i - 1]["gts"]]
                    frames[i]["ests"] = [dict(e, pos=[e["pos"][0] + 0.5, e["pos"][1] + 0.25, e["pos"][2]]) for e in frames[i - 1]["ests"]]
                    if rng.random() < 0.6 and len(frames[i]["ests"]) >= 2:  # an identity swap
                        a, b = frames[i]["ests"][0], frames[i]["ests"][1]
                        a["uuid"], b["uuid"] = b["uuid"], a["uuid"]
            if ci % 8 == 5:
                frames = int_scene(rng, K)
                MC.assign_confidences(frames, rng, distinct=True)
            else:
                MC.assign_confidences(frames, rng, distinct=True)
                jitter(frames)
            if ci % 8 == 7:
                straddle(frames, rng)
            if ci % 8 not in (5, 7) and rng.random() < 0.5:
                # objects well above / below the ego vehicle whose PLANAR distance is inside a range bound that their 3-D distance is outside
                # of (35.03 m: planar 34.625, z 7; 3.03 m: planar 2.875, z 2): range filtering is by the planar distance in both renderings
                for fr in frames:
                    if fr["gts"]:
                        g = fr["gts"][0]
                        x, y, z = rng.choice([(34.625, 0.0, 7.0), (0.0, -34.625, -7.0), (-34.625, 0.0, 7.0), (2.875, 0.0, 2.0), (0.0, 2.875, -2.0)])
                        dx, dy = g["pos"][0] - x, g["pos"][1] - y
                        g["pos"] = [x, y, z]
                        for e in fr["ests"]:
                            if e["uuid"] == "t" + g["uuid"][1:]:
                                e["pos"] = [e["pos"][0] - dx, e["pos"][1] - dy, z]
            if ci % 8 == 6:
                # every frame of the scene carries the SAME name (as the first frames of several datasets do, or interpolated frames):
                # nothing may be remembered per frame name across frames with other ego poses
                for fr in frames:
                    fr["name"] = "0"
            far = ci % 8 == 3
            if far:      # map coordinates of the size real maps have (1e4 .. 1e5 m), still on the k/8 lattice
                for fr in frames:
                    fr["ego"]["t"] = [89000 + rng.randint(-800, 800) / 8, 42000 + rng.randint(-800, 800) / 8, 40 + rng.randint(-16, 16) / 8]
            # manager-level filtering that BINDS (range by x/y or by distance, matchable radii, target uuids), mostly under a critical filter
            # that removes nothing
            mgr = ci % len(MGR)
            crit = rng.randrange(len(CRIT))
            if mgr != 0 and rng.random() < 0.6:
                crit = WIDE_CRIT
            # how the EGO-frame rendering carries its transforms: the pose (as the loader does), an empty list, or nothing at all
            ego_tf = ["pose", "pose", "empty", "none"][ci % 4]
            # later frames derived from the previous (already evaluated) frame object by deepcopy + in-place update of its transforms
            out.append({"task": task, "frames": frames, "crit": crit, "pf": rng.randrange(len(PF)), "ego_tf": ego_tf,
                        "int_positions": ci % 8 == 5, "derived_frames": ego_tf == "pose" and ci % 2 == 1 and K >= 2,
                        "mgr": mgr, "fp_gt": fp_gt and ci % 8 != 5, "far_map": far and ci % 8 != 5, "shared_cfg": shared_cfg})
        return out

    def run_impl(self, case):
        try:
            _, ego = run_scene(case, "base_link")
            mgr_m, mp = run_scene(case, "map")
            obs = {"ego": [frame_fp(r, g, "base_link") for r, g in ego], "map": [frame_fp(r, g, "map") for r, g in mp]}
            m2, _ = run_scene(case, "base_link")
            obs["scene_ego"] = MC.score_fingerprint(m2.get_scene_result())
            obs["scene_map"] = MC.score_fingerprint(mgr_m.get_scene_result())
            return obs
        finally:
            MC.cleanup_tmp()

    # ---- Coq side: exact geometry of the two renderings vs what the implementation computed ----
    @staticmethod
    def _box(spec):
        c, s = spec["yaw_cs"]
        w, l, h = spec["size"]
        return f"(mkBox {qlit(spec['pos'][0])} {qlit(spec['pos'][1])} {qlit(spec['pos'][2])} {qlit(c)} {qlit(s)} {qlit(w)} {qlit(l)} {qlit(h)})"

    def coq_term(self, case, obs):
        parts = []
        for fi, fr in enumerate(case["frames"]):
            ego = fr["ego"]
            m = f"(mkMotion {qlit(ego['cs'][0])} {qlit(ego['cs'][1])} {qlit(ego['t'][0])} {qlit(ego['t'][1])} {qlit(ego['t'][2])})"
            E = {e["uuid"]: e for e in fr["ests"]}
            G = {g["uuid"]: g for g in fr["gts"]}
            fe, fm = obs["ego"][fi], obs["map"][fi]
            for key, pe in fe["pairs"].items():
                eu, gu = eval(key)
                if gu is None or key not in fm["pairs"]:
                    continue
                pm = fm["pairs"][key]
                parts.append(f"check_pair {m} {self._box(E[eu])} {self._box(G[gu])} {qlit(pe['center'] ** 2)} {qlit(pm['center'] ** 2)} "
                             f"{qlit(pe['plane'] ** 2)} {qlit(pm['plane'] ** 2)}")
            for k, rec in fm["ego_rel"].items():
                spec = E[k[2:]] if k.startswith("e:") else G[k[2:]]
                parts.append(f"check_obj {m} {qlit(spec['pos'][0])} {qlit(spec['pos'][1])} {qlit(spec['pos'][2])} {qlit(rec[0])} {qlit(rec[1])} {qlit(rec[2])}")
        if not parts:
            return "true"
        return "(" + " && ".join(parts) + ")%bool"

    def oracle(self, case, obs):
        for fi, (a, b) in enumerate(zip(obs["ego"], obs["map"])):
            for k in ("critical_gt", "results", "tp", "fp", "fn", "tn"):
                if a[k] != b[k]:
                    return f"frame {fi}: {k} differs between the ego-frame and the map-frame evaluation of the same scene: {a[k]} vs {b[k]}"
            d = first_diff(a["pairs"], b["pairs"], f"frame {fi} per-pair scores")
            if d:
                return d
            d = first_diff(a["ego_rel"], b["ego_rel"], f"frame {fi} ego-relative positions")
            if d:
                return d
            d = first_diff(a["score"], b["score"], f"frame {fi} metrics")
            if d:
                return d
        d = first_diff(obs["scene_ego"], obs["scene_map"], "scene metrics")
        if d:
            return d
        return None

    def nontrivial(self, case, obs):
        return sum(len(f.get("results", [])) for f in obs.get("ego", [])) >= 2 if isinstance(obs, dict) and "ego" in obs else False

    def describe(self, case, obs):
        return {"case": {"task": case["task"], "crit": CRIT[case["crit"]], "pass_fail_threshold": PF[case["pf"]],
                         "frames": [{"ego_pose": f["ego"], "n_gt": len(f["gts"]), "n_est": len(f["ests"])} for f in case["frames"]]},
                "observed": {"ego_frame_tp": [f["tp"] for f in obs["ego"]], "map_frame_tp": [f["tp"] for f in obs["map"]],
                             "scene_map_first": obs["scene_map"]["maps"][:1]}}

    def distribution(self, cases, obs):
        d = {"tasks": {}, "frames": 0, "pairs": 0, "tp": 0, "fp": 0, "fn": 0, "filtered_out_gt": 0, "id_switches_seen": 0,
             "ego_rendering_transforms": {"pose": 0, "empty": 0, "none": 0}, "scenes_with_int_typed_map_positions": 0, "scenes_with_frames_derived_by_deepcopy": 0,
             "manager_config": {}, "scenes_where_only_the_manager_level_filter_acts": 0, "targeted_gt_removed_by_the_manager_level_filter_alone": 0,
             "estimates_removed_or_unmatched_under_the_manager_level_filter_alone": 0,
             "scenes_with_fp_labelled_gt": 0, "tn": 0, "scenes_with_map_coordinates_around_1e5": 0,
             "scenes_with_one_critical_and_passfail_config_instance_for_all_frames": 0, "of_those_with_3_or_more_frames": 0,
             "pairs_straddling_the_pi_cut_in_the_map_frame_only": 0, "of_those_turned_by_less_than_15_degrees": 0}
        for c, o in zip(cases, obs):
            if not isinstance(o, dict) or "ego" not in o:
                continue
            d["tasks"][c["task"]] = d["tasks"].get(c["task"], 0) + 1
            d["ego_rendering_transforms"][c.get("ego_tf", "pose")] += 1
            d["scenes_with_int_typed_map_positions"] += bool(c.get("int_positions"))
            d["scenes_with_frames_derived_by_deepcopy"] += bool(c.get("derived_frames"))
            mk = ",".join(sorted(MGR[c.get("mgr", 0)])) or "wide x/y"
            d["manager_config"][mk] = d["manager_config"].get(mk, 0) + 1
            only_mgr = c.get("mgr", 0) != 0 and c["crit"] == WIDE_CRIT
            d["scenes_where_only_the_manager_level_filter_acts"] += only_mgr
            d["scenes_with_fp_labelled_gt"] += any(g["label"] == "false_positive" for fr in c["frames"] for g in fr["gts"])
            d["scenes_with_map_coordinates_around_1e5"] += bool(c.get("far_map"))
            d["scenes_with_one_critical_and_passfail_config_instance_for_all_frames"] += bool(c.get("shared_cfg")) and len(c["frames"]) >= 2
            d["of_those_with_3_or_more_frames"] += bool(c.get("shared_cfg")) and len(c["frames"]) >= 3
            if not c.get("int_positions"):
                n_st = sum(straddles_in_map_only(fr) for fr in c["frames"])
                d["pairs_straddling_the_pi_cut_in_the_map_frame_only"] += n_st
                if any(tuple(e.get("yaw_cs", ())) not in MC.CIRCLE for fr in c["frames"] for e in fr["ests"]):
                    d["of_those_turned_by_less_than_15_degrees"] += n_st
            for fr, f in zip(c["frames"], o["ego"]):
                d["tn"] += len(f["tn"])
                if only_mgr:
                    d["targeted_gt_removed_by_the_manager_level_filter_alone"] += (
                        sum(1 for g in fr["gts"] if g["label"] in MC.TARGETS + ["false_positive"]) - len(f["critical_gt"]))
                    d["estimates_removed_or_unmatched_under_the_manager_level_filter_alone"] += len(fr["ests"]) - len(f["results"])
            for fr, f in zip(c["frames"], o["ego"]):
                d["frames"] += 1
                d["pairs"] += len(f["pairs"])
                d["tp"] += len(f["tp"])
                d["fp"] += len(f["fp"])
                d["fn"] += len(f["fn"])
                d["filtered_out_gt"] += len(fr["gts"]) - len(f["critical_gt"])
            for t in o["scene_ego"]["tracking"]:
                d["id_switches_seen"] += sum(c_[2] for c_ in t["clears"])
        return d


class C07(Prop):
    id = "C07"
    props_file = "Props/C07.v"
    design_ref = "DESIGN.md section 4, C07"
    technique = "Rocq proof (rigid-motion invariance of every per-object / per-pair fact the pipeline reads, composed from the C06/C09/C18 proofs, plus ==-extensionality of filter, matcher, TP decision, AP and the CLEAR accumulation); in-Coq correspondence on two renderings of the same scenes"
    level_text = ("Theorems (Props/C07.v, closed under the global context) for ANY ego pose (unit quaternion for positions; yaw+translation for boxes): the "
                  "ego-relative coordinates recovered through the inverse transform are the ego-frame coordinates; centre distance, plane distance (as the "
                  "code computes it in the map frame), height intersection and the heading weight are equal in both renderings; IoU is (for the exact intersection evaluator unconditionally, for any other area function given its invariance); the range-filter predicate, the two-stage matcher, the TP decision and AP/APH depend on those numbers only up to "
                  "==, and so do the CLEAR counters, MOTA and MOTP for every history; so all discrete outcomes coincide and all scores are equal. Tie: the same generated scenes (detection and tracking, random ego pose) "
                  "are evaluated by the real manager in the ego frame and in the map frame; the exact geometry of both renderings is evaluated in Coq and "
                  "compared with what the implementation computed in each frame, and the two executions are compared with each other on every outcome "
                  "(objects surviving the manager-level range / radius / uuid filtering, critical filtering, matching, TP/FP/FN/TN, scores).")
    level_note = ("Exact arithmetic over Q vs binary64: agreement within 1e-7 relative (plane distance is rounded to 1e-10 by the code). Scenes are on the "
                  "k/8 lattice with bounds and thresholds off the lattice and unique dyadic jitter, so no decision is within tolerance of its boundary "
                  "(the property's precondition). IoU invariance is proved for the exact evaluator of the intersection area (C07_iou_invariant_exact_evaluator, from C06's clipper proofs), with which shapely is compared on every run. CLEAR invariance is the theorem "
                  "C07_clear_invariant about the C05 model (identical counters, equal MOTA/MOTP for histories whose per-pair scores are equal as numbers) and is "
                  "additionally observed on the two executions.")
    rule = ("40 (quick) / 400 (thorough) scenes of 1-4 frames, 0-7 GT per frame, random rational ego pose (13 yaws x lattice translations), 4 critical filters x 3 "
            "pass/fail thresholds, detection and tracking (persistent tracks with identity swaps); the ego-frame rendering carries the pose / an empty transform list / no transforms in turn; every 8th scene has integer-typed map-frame positions with a fractional ego pose; the MANAGER's own filter configuration rotates over wide x/y (only the critical filter binds), binding max_x/max_y, "
            "binding max/min distance, binding x + max_matchable_radii, binding y + target_uuids -- 60% of those under a critical filter that removes nothing, so that "
            "PerceptionEvaluationManager._filter_objects alone decides; 40% of the scenes carry FP-labelled ground truth (TN lists compared); every 8th scene has map coordinates around (89000, 42000, 40) m; "
            "every 2nd scene hands ONE CriticalObjectFilterConfig / PerceptionPassFailConfig instance to all its frames (every 4th scene has >= 3 frames then) while the ego pose changes from frame to frame; "
            "every 8th scene is a straddle scene: each ground truth heads along -x of the MAP (ego yaw + object yaw = pi) and its estimate is turned by +-14 / +-7 / +-1.8 degrees, so the pair lies across the +-pi cut in the map rendering only (APH weight, heading error); "
            "non-trivial = at least two object results")
    assumptions = ["decisions at least 1e-5 away from their boundaries by construction of the generator", "shapely's intersection area agrees with the exact evaluator within 1e-9 (C06's correspondence)"]
    not_proved = [                  "roll/pitch in the ego pose for box-level facts (positions only)"]

    def correspondences(self):
        return [RenderingCorr()]

    def cleanup(self):
        MC.cleanup_tmp(all_pids=True)


READY = True
PROP = C07()
