"""Temporary standalone driver for the end-to-end pipeline correspondence (Props/Pipeline.v)."""
from harness.lib.core import Prop
from harness.props.pipeline_corr import PipelineCorr


class CPL(Prop):
    id = "CPL"
    props_file = "Props/Pipeline.v"
    gen_files = []
    design_ref = "composition of C01 / C10 / C03 / C04"
    technique = "composed Gallina model + in-Coq correspondence with PerceptionEvaluationManager.add_frame_result"
    level_text = "see Props/Pipeline.v"
    level_note = ""
    rule = "see harness/props/pipeline_corr.py"
    assumptions = []
    not_proved = []

    def correspondences(self):
        return [PipelineCorr()]


READY = False
PROP = CPL()
