"""C16 -- loading a dataset reproduces its annotations as ground-truth frames.

The harness WRITES dataset directories (the JSON tables of the T4 / nuScenes layout of the bundled
fixture) below build/C16_tmp_<pid>/, loads them with the real `load_all_datasets` for both frame ids,
detection / tracking / sensing and merge on/off, and compares (inside Coq) with Model/Dataset.v
evaluated on the same tables.  The Python oracle states the property directly against the
generator's own tables with exact rational arithmetic, independently of the Coq model."""
import glob
import json
import os
import shutil
from fractions import Fraction

from harness.lib import core
from harness.lib.core import Corr, Prop, blit, llit, olit, qlit, slit, zlit

HEADER = ("From Coq Require Import List Bool ZArith QArith String.\n"
          "From PE Require Import Base.CaseUtil Model.EnumParse Model.Transform Model.Dataset.\n"
          "Import ListNotations.\nOpen Scope string_scope.\nOpen Scope Z_scope.\nOpen Scope Q_scope.\n")
TOL = 1e-9
WINDOW_US = 3150000      # PredictHelper: seconds (3.0) + BUFFER (0.15), in microseconds
MAX_HISTORY = 6          # PredictHelper: int(expected_samples_per_sec (2) * seconds (3.0))

TASKS = ["detection", "tracking", "sensing"]
FRAMES = ["base_link", "map"]
ALL_CONFIGS = [[t, f, m] for t in TASKS for f in FRAMES for m in (False, True)]

# integer 4-vectors with integer norm: (w, x, y, z, n), w^2+x^2+y^2+z^2 = n^2
YAW_QUATS = [(1, 0, 0, 0, 1), (0, 0, 0, 1, 1), (3, 0, 0, 4, 5), (4, 0, 0, -3, 5), (12, 0, 0, 5, 13), (5, 0, 0, -12, 13),
             (15, 0, 0, 8, 17), (-24, 0, 0, 7, 25), (-1, 0, 0, 0, 1), (8, 0, 0, -15, 17)]
GEN_QUATS = [(1, 1, 1, 1, 2), (1, 2, 2, 4, 5), (2, 3, 6, 0, 7), (1, 2, 4, 10, 11), (2, 4, 5, 6, 9), (1, 1, 3, 5, 6),
             (2, 2, 3, 8, 9), (1, 4, 8, 0, 9), (0, 3, 4, 0, 5), (6, 2, 3, 0, 7), (10, 1, 2, 4, 11), (14, 2, 5, 0, 15),
             (0, 1, 0, 0, 1), (0, 0, 1, 0, 1)]
IDENT_Q = (1, 0, 0, 0, 1)

REGISTERED = ["car", "vehicle.car", "pedestrian.adult", "bicycle", "truck", "vehicle.truck", "bus", "vehicle.bus", "motorbike",
              "vehicle.motorcycle", "trailer", "pedestrian", "animal", "unknown", "movable_object.barrier", "vehicle.bicycle",
              "Car", "VEHICLE.CAR", "Truck", "Pedestrian.Adult", "BUS", "MotorBike"]
UNREGISTERED = ["human.pedestrian.adult", "vehicle", "zzz", "static_object.bicycle_rack", "cars", "", "pedestrian.adult "]
ATTR_NAMES = ["vehicle.moving", "vehicle.stopped", "vehicle.parked", "pedestrian.standing", "pedestrian.moving",
              "cycle.with_rider", "cycle.without_rider", "occlusion_state.none", "vehicle_state.driving"]
VIS_LEVELS = ["full", "most", "partial", "none", "not available", "v0-40", "v40-60", "v60-80", "v80-100", "v1-2", "FULL", ""]
VIS_MEMBERS = {"full": "FULL", "most": "MOST", "partial": "PARTIAL", "none": "NONE", "not available": "UNAVAILABLE"}
VIS_ALIASES = {"v0-40": "NONE", "v40-60": "PARTIAL", "v60-80": "MOST", "v80-100": "FULL"}
SENSOR_CHOICES = [("CAM_FRONT", "camera"), ("RADAR_FRONT", "radar"), ("CAM_BACK", "camera"), ("RADAR_BACK", "radar"),
                  ("cam_front_left", "camera")]
STEPS_US = [100000, 500000, 500000, 1000000, 1000000, 1575000, 3150000, 3149999, 3150001, 50000, 2650000, 650000, 1]


# ------------------------------------------------------------------------------------------------
# generator
# ------------------------------------------------------------------------------------------------
def _tok(rng, used, n=8):
    while True:
        t = "".join(rng.choice("0123456789abcdef") for _ in range(n))
        if t not in used:
            used.add(t)
            return t


def _quat(rng, general):
    q = rng.choice(GEN_QUATS if general else YAW_QUATS)
    w, x, y, z, n = q
    if general and rng.random() < 0.5:
        v = [w, x, y, z]
        rng.shuffle(v)
        w, x, y, z = v
    if rng.random() < 0.3:
        w, x, y, z = -w, -x, -y, -z
    if general and rng.random() < 0.5:
        x = -x
    return [w, x, y, z, n]


def _vec(rng, lim=2048, zlim=64):
    return [rng.randint(-lim, lim), rng.randint(-lim, lim), rng.randint(-zlim, zlim)]     # eighths


def gen_dataset(rng, K=None, M=None, shuffle_samples=None, ident_calib=None, empty_vis=False, steps=None, p_present=None, twins=None):
    used = set()
    K = rng.randint(1, 8) if K is None else K
    M = rng.randint(0, 6) if M is None else M
    # ---- samples: time order, then (sometimes) a different table order
    t = 1600000000000000 + rng.randint(0, 10 ** 9)
    times = []
    for i in range(K):
        times.append(t)
        t += rng.choice(steps or STEPS_US)
    stoks = [_tok(rng, used) for _ in range(K)]
    samples = [{"token": stoks[i], "timestamp": times[i], "prev": stoks[i - 1] if i else "", "next": stoks[i + 1] if i + 1 < K else ""}
               for i in range(K)]
    time_order = list(stoks)
    if shuffle_samples is None:
        shuffle_samples = rng.random() < 0.3
    if shuffle_samples:
        rng.shuffle(samples)
    # ---- sensors
    lidar_kind = rng.choice(["LIDAR_TOP", "LIDAR_CONCAT", "LIDAR_CONCAT", "both"])
    chans = [("LIDAR_TOP", "lidar"), ("LIDAR_CONCAT", "lidar")] if lidar_kind == "both" else [(lidar_kind, "lidar")]
    chans += rng.sample(SENSOR_CHOICES, rng.randint(0, 3 - len(chans)))
    rng.shuffle(chans)
    sensors = [{"token": _tok(rng, used), "channel": c, "modality": m} for c, m in chans]
    if ident_calib is None:
        ident_calib = rng.random() < 0.6
    calibs = []
    for s in sensors:
        if s["modality"] == "lidar" and ident_calib:
            q, tr = list(IDENT_Q), [0, 0, 0]
        else:
            q, tr = _quat(rng, rng.random() < 0.5), [rng.randint(-32, 32), rng.randint(-16, 16), rng.randint(0, 24)]
        calibs.append({"token": _tok(rng, used), "sensor": s["token"], "q": q, "t": tr})
    rng.shuffle(calibs)
    # ---- sample_data + ego poses (one per sample_data, as in nuScenes: distinct per sensor)
    sds, egos = [], []
    for s in samples:
        for c in calibs:
            reps = [True]
            chan = next(x["channel"] for x in sensors if x["token"] == c["sensor"])
            if chan.startswith("LIDAR") and rng.random() < 0.3:
                reps = rng.choice([[False, True], [True, False], [True, False, False]])   # sweeps around the key frame
            for key in reps:
                e = {"token": _tok(rng, used), "q": _quat(rng, rng.random() < 0.3), "t": _vec(rng)}
                egos.append(e)
                sds.append({"token": _tok(rng, used), "sample": s["token"], "ego": e["token"], "cs": c["token"], "key": key,
                            "timestamp": s["timestamp"] + rng.randint(-20000, 20000)})
    rng.shuffle(sds)
    rng.shuffle(egos)
    # ---- categories, attributes, visibility
    ncat = rng.randint(1, 5)
    names = [rng.choice(REGISTERED) if rng.random() < 0.75 else rng.choice(UNREGISTERED) for _ in range(ncat)]
    cats = [{"token": _tok(rng, used), "name": n} for n in names]
    attrs = [{"token": _tok(rng, used), "name": n} for n in rng.sample(ATTR_NAMES, rng.randint(0, 4))]
    if empty_vis:
        vis = []
    else:
        style = rng.random()
        levels = rng.sample(VIS_LEVELS, rng.randint(1, 6))
        if style < 0.3:      # nuScenes: numeric tokens
            vis = [{"token": str(i + 1), "level": l} for i, l in enumerate(levels)]
        elif style < 0.6:    # T4: token is a member value, level an alias (not necessarily the matching one)
            vtoks = rng.sample(["full", "most", "partial", "none"], min(4, len(levels)))
            vis = [{"token": tk, "level": l} for tk, l in zip(vtoks, levels)]
        else:
            vis = [{"token": _tok(rng, used), "level": l} for l in levels]
    # ---- instances and annotations
    insts = [{"token": _tok(rng, used), "category": rng.choice(cats)["token"]} for _ in range(M)]
    anns = []
    for ins in insts:
        pp = rng.choice([0.4, 0.7, 1.0]) if p_present is None else p_present
        present = [st for st in time_order if rng.random() < pp]
        if not present and rng.random() < 0.7:
            present = [rng.choice(time_order)]
        pos = _vec(rng)
        q = _quat(rng, rng.random() < 0.25)
        size = [rng.randint(1, 40), rng.randint(1, 80), rng.randint(1, 32)]
        chain = []
        for st in present:
            pos = [pos[0] + rng.randint(-40, 40), pos[1] + rng.randint(-40, 40), pos[2] + rng.randint(-2, 2)]
            if rng.random() < 0.5:
                q = _quat(rng, rng.random() < 0.25)
            if rng.random() < 0.15:
                size = [rng.randint(1, 40), rng.randint(1, 80), rng.randint(1, 32)]
            chain.append({"token": _tok(rng, used), "sample": st, "instance": ins["token"],
                          "vis": (rng.choice(vis)["token"] if vis else rng.choice(["", "1", "full"])),
                          "attrs": [a["token"] for a in rng.sample(attrs, rng.randint(0, min(2, len(attrs))))],
                          "t": list(pos), "size": list(size), "q": list(q), "prev": "", "next": "", "pts": rng.choice([0, 1, 5, 17, 300, rng.randint(0, 5000)])})
        for i, a in enumerate(chain):
            a["prev"] = chain[i - 1]["token"] if i else ""
            a["next"] = chain[i + 1]["token"] if i + 1 < len(chain) else ""
        anns += chain
    if twins is None:
        twins = rng.random() < 0.5
    if twins and len(insts) >= 2:
        # two instances of ONE category whose annotations carry DIFFERENT attribute lists (in the same sample where both are annotated, and
        # changing from sample to sample within an instance): a converter / loader that remembers a label per category name, per category
        # token or per instance hands one annotation's attributes to another
        if not attrs:
            attrs.append({"token": _tok(rng, used), "name": rng.choice(ATTR_NAMES)})
        insts[1]["category"] = insts[0]["category"]
        first, last = attrs[0]["token"], attrs[-1]["token"]
        k = 0
        for a in anns:
            if a["instance"] == insts[0]["token"]:
                a["attrs"] = [first] if k % 2 == 0 else []
                k += 1
            elif a["instance"] == insts[1]["token"]:
                a["attrs"] = [last, first] if len(attrs) > 1 else []
                if k % 3 == 2:
                    a["attrs"] = list(reversed(a["attrs"]))
    rng.shuffle(anns)
    rng.shuffle(insts)
    return {"samples": samples, "sample_data": sds, "ego_pose": egos, "calibrated_sensor": calibs, "sensor": sensors,
            "ann": anns, "instance": insts, "category": cats, "attribute": attrs, "visibility": vis}


def alias_tokens(A, B, rng):
    """Second dataset B of a load of several paths REUSES tokens of dataset A for other things (category / attribute / visibility /
    instance tokens are only unique within one dataset directory), and one of its categories carries a NAME that A's annotations use:
    anything remembered per token or per name from one dataset to the next (module-level or on the shared converter) shows."""
    def remap(table, atable, refs):
        m = {}
        for b, a in zip(table, atable):
            if a["token"] not in {x["token"] for x in table}:
                m[b["token"]] = a["token"]
        for b in table:
            b["token"] = m.get(b["token"], b["token"])
        for rows, key in refs:
            for r in rows:
                if isinstance(r[key], list):
                    r[key] = [m.get(t, t) for t in r[key]]
                else:
                    r[key] = m.get(r[key], r[key])
    remap(B["category"], A["category"], [(B["instance"], "category")])
    remap(B["attribute"], list(reversed(A["attribute"])), [(B["ann"], "attrs")])
    remap(B["visibility"], list(reversed(A["visibility"])), [(B["ann"], "vis")])
    remap(B["instance"], A["instance"], [(B["ann"], "instance")])
    remap(B["calibrated_sensor"], A["calibrated_sensor"], [(B["sample_data"], "cs")])
    remap(B["ego_pose"], A["ego_pose"], [(B["sample_data"], "ego")])
    remap(B["samples"], A["samples"], [(B["sample_data"], "sample"), (B["ann"], "sample"), (B["samples"], "prev"), (B["samples"], "next")])
    used_names = [c["name"] for c in A["category"] if any(i["category"] == c["token"] for i in A["instance"])]
    if used_names and B["category"]:
        B["category"][0]["name"] = used_names[-1]
    B["aliased"] = True


# ------------------------------------------------------------------------------------------------
# writing the dataset directory
# ------------------------------------------------------------------------------------------------
def _qf(q):
    return [q[0] / q[4], q[1] / q[4], q[2] / q[4], q[3] / q[4]]


def _vf(v):
    return [v[0] / 8.0, v[1] / 8.0, v[2] / 8.0]


def tmp_root():
    return os.path.join(core.BUILD, f"C16_tmp_{os.getpid()}")


def write_dataset(ds, root):
    ann_dir = os.path.join(root, "annotation")
    os.makedirs(ann_dir, exist_ok=True)
    os.makedirs(os.path.join(root, "data"), exist_ok=True)
    os.makedirs(os.path.join(root, "maps"), exist_ok=True)
    chan_of_cs = {}
    sensor_by_tok = {s["token"]: s for s in ds["sensor"]}
    for c in ds["calibrated_sensor"]:
        chan_of_cs[c["token"]] = sensor_by_tok[c["sensor"]]["channel"] if c["sensor"] in sensor_by_tok else "X"
    T = {}
    T["category"] = [{"token": c["token"], "name": c["name"], "description": ""} for c in ds["category"]]
    T["attribute"] = [{"token": a["token"], "name": a["name"], "description": ""} for a in ds["attribute"]]
    T["visibility"] = [{"token": v["token"], "level": v["level"], "description": ""} for v in ds["visibility"]]
    T["sensor"] = [{"token": s["token"], "channel": s["channel"], "modality": s["modality"]} for s in ds["sensor"]]
    T["calibrated_sensor"] = [{"token": c["token"], "sensor_token": c["sensor"], "translation": _vf(c["t"]), "rotation": _qf(c["q"]),
                               "camera_intrinsic": []} for c in ds["calibrated_sensor"]]
    T["log"] = [{"token": "log0", "logfile": "", "vehicle": "v", "date_captured": "2020-01-01", "location": "here"}]
    T["map"] = [{"token": "map0", "category": "semantic_prior", "filename": "", "log_tokens": ["log0"]}]
    first = [s for s in ds["samples"] if s["prev"] == ""]
    last = [s for s in ds["samples"] if s["next"] == ""]
    T["scene"] = [{"token": "scene0", "log_token": "log0", "nbr_samples": len(ds["samples"]), "name": "scene-0",
                   "description": "", "first_sample_token": first[0]["token"] if first else "",
                   "last_sample_token": last[0]["token"] if last else ""}]
    T["sample"] = [{"token": s["token"], "timestamp": s["timestamp"], "prev": s["prev"], "next": s["next"], "scene_token": "scene0"}
                   for s in ds["samples"]]
    T["ego_pose"] = [{"token": e["token"], "timestamp": 0, "rotation": _qf(e["q"]), "translation": _vf(e["t"])} for e in ds["ego_pose"]]
    T["sample_data"] = [{"token": d["token"], "sample_token": d["sample"], "ego_pose_token": d["ego"], "calibrated_sensor_token": d["cs"],
                         "timestamp": d["timestamp"], "fileformat": "pcd.bin", "is_key_frame": d["key"], "height": 0, "width": 0,
                         "filename": f"data/{chan_of_cs.get(d['cs'], 'X')}/{d['token']}.pcd.bin", "prev": "", "next": ""}
                        for d in ds["sample_data"]]
    nann = {}
    for a in ds["ann"]:
        nann[a["instance"]] = nann.get(a["instance"], 0) + 1
    T["instance"] = [{"token": i["token"], "category_token": i["category"], "instance_name": "", "nbr_annotations": nann.get(i["token"], 0),
                      "first_annotation_token": "", "last_annotation_token": ""} for i in ds["instance"]]
    T["sample_annotation"] = [{"token": a["token"], "sample_token": a["sample"], "instance_token": a["instance"],
                               "visibility_token": a["vis"], "attribute_tokens": list(a["attrs"]), "translation": _vf(a["t"]),
                               "size": _vf(a["size"]), "rotation": _qf(a["q"]), "prev": a["prev"], "next": a["next"],
                               "num_lidar_pts": a["pts"], "num_radar_pts": 0} for a in ds["ann"]]
    T["object_ann"] = []
    T["surface_ann"] = []
    for name, rows in T.items():
        with open(os.path.join(ann_dir, name + ".json"), "w") as f:
            json.dump(rows, f)


# ------------------------------------------------------------------------------------------------
# running the implementation
# ------------------------------------------------------------------------------------------------
def _enum_name(x):
    return x.name if hasattr(x, "name") and not isinstance(x, str) else f"str:{x}"


def observe_frames(frames):
    from perception_eval.common.schema import FrameID

    out = []
    for fr in frames:
        objs = []
        for o in fr.objects:
            st = o.state
            vis = o.visibility
            hist = None
            if o.tracked_path is not None:
                hist = [{"pos": [float(v) for v in h.position], "ori": [float(v) for v in h.orientation.q],
                         "size": [float(v) for v in h.shape.size]} for h in o.tracked_path]
            fp = [[float(c[0]), float(c[1])] for c in list(st.shape.footprint.exterior.coords)]
            # the stored transforms applied through the PUBLIC API (position and orientation together)
            to_map = None
            try:
                tp_, tr_ = fr.transforms.transform((o.frame_id, FrameID.MAP), tuple(st.position), st.orientation)
                to_map = {"pos": [float(v) for v in tp_], "ori": [float(v) for v in tr_.q]}
            except (KeyError, ValueError):
                pass
            objs.append({
                "to_map": to_map,
                "uuid": o.uuid, "label": o.semantic_label.label.name, "label_type": type(o.semantic_label.label).__name__,
                "name": o.semantic_label.name,
                "attrs": list(o.semantic_label.attributes), "size": [float(v) for v in st.size], "footprint": fp,
                "shape": _enum_name(st.shape.type), "pts": o.pointcloud_num,
                "vis": None if vis is None else (vis.name if type(vis).__name__ == "Visibility" else f"str:{vis}"),
                "pos": [float(v) for v in st.position], "ori": [float(v) for v in st.orientation.q],
                "frame_id": _enum_name(o.frame_id), "unix_time": o.unix_time, "score": float(o.semantic_score), "hist": hist,
                "velocity_none": st.velocity is None,      # outside the C16 statement: recorded in the distribution only
            })
        e2m = fr.transforms.get((FrameID.BASE_LINK, FrameID.MAP))
        tf = None
        if e2m is not None:
            tf = {"matrix": [float(v) for v in e2m.matrix.reshape(-1)], "pos": [float(v) for v in e2m.position],
                  "rot": [float(v) for v in e2m.rotation.q], "src": _enum_name(e2m.src), "dst": _enum_name(e2m.dst)}
        others = []
        for key, m in fr.transforms.items():
            others.append({"src": _enum_name(m.src), "dst": _enum_name(m.dst), "pos": [float(v) for v in m.position],
                           "rot": [float(v) for v in m.rotation.q]})
        out.append({"unix_time": fr.unix_time, "frame_name": fr.frame_name, "objects": objs, "ego2map": tf, "transforms": others,
                    "raw_data": fr.raw_data is not None})
    return out


def _frame_id_arg(frame, form):
    """the `frame_id` argument in the representations the signature documents: Union[FrameID, Sequence[FrameID]]"""
    from perception_eval.common.schema import FrameID

    fid = FrameID.from_value(frame)
    return {"bare": fid, "list": [fid], "tuple": (fid,)}[form]


def load_config(roots, task, frame, merge, form="bare", conv=None):
    from perception_eval.common.dataset import load_all_datasets
    from perception_eval.common.evaluation_task import EvaluationTask
    from perception_eval.common.label import LabelConverter

    et = EvaluationTask.from_value(task)
    if conv is None:
        conv = LabelConverter(et, merge, "autoware")
    try:
        frames = load_all_datasets(list(roots), et, conv, _frame_id_arg(frame, form), False)
    except Exception as e:
        if type(e).__name__ in ("KeyError", "ValueError", "DatasetLoadingError"):
            return {"error": type(e).__name__}
        if isinstance(e, (TypeError, AssertionError)):
            # e.g. a documented representation of the frame_id argument refused: reported by the oracle (and Unmodelled for the model)
            return {"error": f"{type(e).__name__}: {str(e)[:120]}"}
        raise
    return {"frames": observe_frames(frames)}


_COUNTER = [0]


def run_dataset(ds, configs, case=None):
    """Loads the dataset under every configuration.  `case` (optional) adds: the representation of the frame_id
    argument per configuration (`fid_forms`), ONE LabelConverter per (task, merge) serving all loads of the case, built the
    way the configuration classes build it (`count_labels`), and for one configuration a load of SEVERAL dataset paths
    (`multi`: the paths name the case's dataset "A" and its second dataset "B").  The observation of a configuration keeps
    the frames of dataset A under "frames" (what the model is compared with); a load of several paths adds "paths" and
    "segments" (the frames cut at the sample counts of the datasets, None when the total differs) for the oracle."""
    from perception_eval.common.evaluation_task import EvaluationTask
    from perception_eval.common.label import LabelConverter

    case = case or {}
    forms = case.get("fid_forms") or ["bare"] * len(configs)
    multi = case.get("multi")
    _COUNTER[0] += 1
    root = os.path.join(tmp_root(), f"d{_COUNTER[0]}")
    roots = {"A": os.path.join(root, "A"), "B": os.path.join(root, "B")}
    try:
        write_dataset(ds, roots["A"])
        if case.get("extra") is not None:
            write_dataset(case["extra"], roots["B"])
        convs = {}
        out = []
        for i, (t, f, m) in enumerate(configs):
            conv = None
            if case.get("share_converter"):
                if (t, m) not in convs:
                    convs[(t, m)] = LabelConverter(EvaluationTask.from_value(t), m, "autoware", bool(case.get("count_labels")))
                conv = convs[(t, m)]
            paths = multi["paths"] if multi and multi["config"] == i else ["A"]
            o = load_config([roots[p] for p in paths], t, f, m, forms[i], conv)
            if paths != ["A"] and "frames" in o:
                counts = [len((ds if p == "A" else case["extra"])["samples"]) for p in paths]
                allf = o["frames"]
                o["paths"], o["n_loaded"], o["segments"] = list(paths), len(allf), None
                if len(allf) == sum(counts):
                    segs, k = [], 0
                    for c in counts:
                        segs.append(allf[k:k + c])
                        k += c
                    o["segments"] = segs
                    o["frames"] = segs[paths.index("A")]
            out.append(o)
        return out
    finally:
        shutil.rmtree(root, ignore_errors=True)
        try:
            os.rmdir(tmp_root())
        except OSError:
            pass


def cleanup_all():
    for d in glob.glob(os.path.join(core.BUILD, "C16_tmp_*")):
        shutil.rmtree(d, ignore_errors=True)


# ------------------------------------------------------------------------------------------------
# Coq literals
# ------------------------------------------------------------------------------------------------
def _cq(q):       # exact rational unit quaternion (w, x, y, z, n) -> mkQuat
    return "(mkQuat " + " ".join(qlit(Fraction(q[i], q[4])) for i in range(4)) + ")"


def _cv(v):       # eighths -> mkVec
    return "(mkVec " + " ".join(qlit(Fraction(x, 8)) for x in v) + ")"


def _cz(n):
    return atom(f"({int(n)})%Z") if abs(int(n)) >= 10 ** 9 else f"({int(n)})%Z"


def coq_dataset(ds):
    slit = satom    # tokens repeat all over the term
    S = llit([f"mkSample {slit(s['token'])} {_cz(s['timestamp'])} {slit(s['prev'])} {slit(s['next'])}" for s in ds["samples"]])
    SD = llit([f"mkSD {slit(d['token'])} {slit(d['sample'])} {slit(d['ego'])} {slit(d['cs'])} {blit(d['key'])}" for d in ds["sample_data"]])
    E = llit([f"mkEgo {slit(e['token'])} {_cq(e['q'])} {_cv(e['t'])}" for e in ds["ego_pose"]])
    C = llit([f"mkCS {slit(c['token'])} {slit(c['sensor'])} {_cq(c['q'])} {_cv(c['t'])}" for c in ds["calibrated_sensor"]])
    SN = llit([f"mkSensor {slit(s['token'])} {slit(s['channel'])} {slit(s['modality'])}" for s in ds["sensor"]])
    A = llit([f"mkAnn {slit(a['token'])} {slit(a['sample'])} {slit(a['instance'])} {slit(a['vis'])} {llit([slit(t) for t in a['attrs']])} "
              f"{_cv(a['t'])} {_cv(a['size'])} {_cq(a['q'])} {slit(a['prev'])} {slit(a['next'])} {_cz(a['pts'])}" for a in ds["ann"]])
    I = llit([f"mkInst {slit(i['token'])} {slit(i['category'])}" for i in ds["instance"]])
    CT = llit([f"mkCat {slit(c['token'])} {slit(c['name'])}" for c in ds["category"]])
    AT = llit([f"mkAttr {slit(a['token'])} {slit(a['name'])}" for a in ds["attribute"]])
    V = llit([f"mkVis {slit(v['token'])} {slit(v['level'])}" for v in ds["visibility"]])
    return f"(mkDataset\n {S}\n {SD}\n {E}\n {C}\n {SN}\n {A}\n {I}\n {CT}\n {AT}\n {V})"


def flit(x):
    """exact literal of a binary64 value: small denominators as n # d, otherwise fl m e = m / 2^e
    (Model/Dataset.v), which keeps the term small"""
    fr = Fraction(x)
    if fr.denominator <= 4096:
        return qlit(fr)
    e = fr.denominator.bit_length() - 1
    assert fr.denominator == 1 << e
    return f"(fl {zlit(fr.numerator)} {e})"


A0, A1 = "\x00", "\x01"     # markers around literals that are shared through `let` when they repeat


def atom(text):
    return A0 + text + A1


def satom(s):
    return atom(slit(s)) if len(s) >= 6 else slit(s)


def _ql(xs):
    return atom(llit([flit(x) for x in xs]))


def _cvis(v):
    if v is None:
        return "None"
    if v.startswith("str:"):
        return f"(Some (KeyStr {slit(v[4:])}))"
    return f"(Some (Member {slit(v)}))"


def coq_obs(o):
    if "error" in o:
        kind = o["error"] if o["error"] in ("KeyError", "ValueError", "DatasetLoadingError") else "Unmodelled"
        return f"(OError {kind})"
    frames = []
    for fr in o["frames"]:
        objs = []
        for ob in fr["objects"]:
            hist = "None" if ob["hist"] is None else \
                atom("(Some " + llit([f"mkOPast {llit([flit(x) for x in h['pos']])} {llit([flit(x) for x in h['ori']])} "
                                      f"{llit([flit(x) for x in h['size']])}" for h in ob["hist"]]) + ")")
            objs.append(f"mkOObj {satom(ob['uuid'])} {slit(ob['label'])} {satom(ob['name'])} {atom(llit([slit(a) for a in ob['attrs']]))} "
                        f"{_ql(ob['size'])} {_cz(ob['pts'])} {_cvis(ob['vis'])} {_ql(ob['pos'])} {_ql(ob['ori'])} {_cz(ob['unix_time'])} "
                        f"{slit(ob['frame_id'])} {hist}")
        mat = fr["ego2map"]["matrix"] if fr["ego2map"] else []
        tfs = atom(llit([f"mkORigid {llit([flit(x) for x in t['pos']])} {llit([flit(x) for x in t['rot']])} {slit(t['src'])} {slit(t['dst'])}"
                         for t in fr["transforms"]]))
        frames.append(f"mkOFrame {_cz(fr['unix_time'])} {slit(fr['frame_name'])} {llit(objs)} {_ql(mat)} {tfs}")
    return "(OFrames " + llit(frames) + ")"


def share_atoms(term):
    """replace literals that occur several times by let-bound variables (type-checked and evaluated once)"""
    import re

    pat = re.compile(A0 + "([^" + A0 + A1 + "]*)" + A1)
    count = {}
    for m in pat.finditer(term):
        count[m.group(1)] = count.get(m.group(1), 0) + 1
    names = {}
    for text, n in count.items():
        if n >= 2 and len(text) >= 8:
            names[text] = f"x{len(names)}"
    body = pat.sub(lambda m: names.get(m.group(1), m.group(1)), term)
    lets = "".join(f"let {v} := {text} in\n" for text, v in names.items())
    return "(" + lets + body + ")"


COQ_TASK = {"detection": "Detection", "tracking": "Tracking", "sensing": "Sensing"}
COQ_FRAME = {"base_link": "BaseLink", "map": "MapFrame"}


# ------------------------------------------------------------------------------------------------
# the property, stated directly against the generator's tables (exact rational arithmetic)
# ------------------------------------------------------------------------------------------------
# documented label of the names the generator uses (label.py's table / its docstring on merging);
# value = (label without merging, label with merging)
EXPECT_LABEL = {
    "car": ("CAR", "CAR"), "vehicle.car": ("CAR", "CAR"), "pedestrian.adult": ("PEDESTRIAN", "PEDESTRIAN"),
    "pedestrian": ("PEDESTRIAN", "PEDESTRIAN"), "bicycle": ("BICYCLE", "BICYCLE"), "vehicle.bicycle": ("BICYCLE", "BICYCLE"),
    "truck": ("TRUCK", "CAR"), "vehicle.truck": ("TRUCK", "CAR"), "trailer": ("TRUCK", "CAR"), "bus": ("BUS", "CAR"),
    "vehicle.bus": ("BUS", "CAR"), "motorbike": ("MOTORBIKE", "BICYCLE"), "vehicle.motorcycle": ("MOTORBIKE", "BICYCLE"),
    "animal": ("UNKNOWN", "UNKNOWN"), "unknown": ("UNKNOWN", "UNKNOWN"), "movable_object.barrier": ("UNKNOWN", "UNKNOWN"),
}


def expected_label(name, merge):
    return EXPECT_LABEL.get(name.lower(), ("UNKNOWN", "UNKNOWN"))[1 if merge else 0]


def expected_visibility(level):
    if level in VIS_MEMBERS:
        return VIS_MEMBERS[level]
    return VIS_ALIASES.get(level, "UNAVAILABLE")


def fq(q):
    return [Fraction(q[i], q[4]) for i in range(4)]


def fv(v):
    return [Fraction(x, 8) for x in v]


def qmul(a, b):
    aw, ax, ay, az = a
    bw, bx, by, bz = b
    return [aw * bw - ax * bx - ay * by - az * bz, aw * bx + ax * bw + ay * bz - az * by,
            aw * by - ax * bz + ay * bw + az * bx, aw * bz + ax * by - ay * bx + az * bw]


def qconj(q):
    return [q[0], -q[1], -q[2], -q[3]]


def rotm(q):
    w, x, y, z = q
    return [[w * w + x * x - y * y - z * z, 2 * (x * y - w * z), 2 * (x * z + w * y)],
            [2 * (x * y + w * z), w * w - x * x + y * y - z * z, 2 * (y * z - w * x)],
            [2 * (x * z - w * y), 2 * (y * z + w * x), w * w - x * x - y * y + z * z]]


def rotv(q, v):
    R = rotm(q)
    return [sum(R[i][j] * v[j] for j in range(3)) for i in range(3)]


def vsub(a, b):
    return [x - y for x, y in zip(a, b)]


def vadd(a, b):
    return [x + y for x, y in zip(a, b)]


def close(a, b, tol=TOL):
    return len(a) == len(b) and all(abs(Fraction(x) - Fraction(y)) <= Fraction(tol) for x, y in zip(a, b))


def same_rotation(qa, qb, tol=TOL):
    """orientations compared as rotations: q and -q are the same"""
    return close(qa, qb, tol) or close(qa, [-x for x in qb], tol)


def lidar_records(ds, sample_tok):
    """(ego pose, calibration) of the sample's lidar key frame: LIDAR_TOP if the sample has one, else LIDAR_CONCAT"""
    sensor = {s["token"]: s for s in ds["sensor"]}
    cs = {c["token"]: c for c in ds["calibrated_sensor"]}
    ego = {e["token"]: e for e in ds["ego_pose"]}
    for chan in ("LIDAR_TOP", "LIDAR_CONCAT"):
        hit = [d for d in ds["sample_data"] if d["key"] and d["sample"] == sample_tok and sensor[cs[d["cs"]]["sensor"]]["channel"] == chan]
        if hit:
            return ego[hit[-1]["ego"]], cs[hit[-1]["cs"]]
    return None


def oracle_config(ds, task, frame, merge, o):
    if "error" in o:
        return f"loading a well-formed dataset failed with {o['error']}"
    frames = o["frames"]
    if len(frames) != len(ds["samples"]):
        return f"{len(frames)} frames for {len(ds['samples'])} samples"
    cat = {c["token"]: c["name"] for c in ds["category"]}
    inst = {i["token"]: i for i in ds["instance"]}
    attr = {a["token"]: a["name"] for a in ds["attribute"]}
    vis = {v["token"]: v["level"] for v in ds["visibility"]}
    stime = {s["token"]: s["timestamp"] for s in ds["samples"]}
    for i, (s, fr) in enumerate(zip(ds["samples"], frames)):
        w = f"frame {i}"
        if fr["unix_time"] != s["timestamp"]:
            return f"{w}: unix_time {fr['unix_time']} is not the timestamp {s['timestamp']} of sample {i} in dataset order"
        if fr["frame_name"] != str(i):
            return f"{w}: frame_name {fr['frame_name']!r}"
        anns = [a for a in ds["ann"] if a["sample"] == s["token"]]
        if len(fr["objects"]) != len(anns):
            return f"{w}: {len(fr['objects'])} objects for {len(anns)} annotations"
        rec = lidar_records(ds, s["token"])
        ego, cs = rec
        qe, te, qc, tc = fq(ego["q"]), fv(ego["t"]), fq(cs["q"]), fv(cs["t"])
        # the stored ego-to-map transform is the ego pose of the lidar key frame
        tf = fr["ego2map"]
        if tf is None:
            return f"{w}: no BASE_LINK->MAP transform stored"
        R = rotm(qe)
        want = [R[0][0], R[0][1], R[0][2], te[0], R[1][0], R[1][1], R[1][2], te[1], R[2][0], R[2][1], R[2][2], te[2], 0, 0, 0, 1]
        if tf["src"] != "BASE_LINK" or tf["dst"] != "MAP" or not close(tf["matrix"], want) or not close(tf["pos"], te) \
                or not same_rotation(tf["rot"], qe):
            return f"{w}: the stored BASE_LINK->MAP transform is not the ego pose {ego['token']} of the lidar key frame"
        for j, (a, ob) in enumerate(zip(anns, fr["objects"])):
            w = f"frame {i} object {j} (annotation {a['token']})"
            if ob["uuid"] != a["instance"]:
                return f"{w}: uuid {ob['uuid']} is not the instance token {a['instance']}"
            name = cat[inst[a["instance"]]["category"]]
            if ob["label"] != expected_label(name, merge) or ob["label_type"] != "AutowareLabel":
                return f"{w}: label {ob['label']} for category {name!r} with merge={merge}, expected {expected_label(name, merge)}"
            if ob["name"] != name:
                return f"{w}: label keeps name {ob['name']!r}, category is {name!r}"
            if ob["attrs"] != [attr[t] for t in a["attrs"]]:
                return f"{w}: attributes {ob['attrs']} but annotated {[attr[t] for t in a['attrs']]}"
            if ob["size"] != _vf(a["size"]) or ob["shape"] != "BOUNDING_BOX":
                return f"{w}: size {ob['size']} but annotated (w, l, h) = {_vf(a['size'])}"
            wl = [[a["size"][1] / 16, a["size"][0] / 16], [-a["size"][1] / 16, a["size"][0] / 16],
                  [-a["size"][1] / 16, -a["size"][0] / 16], [a["size"][1] / 16, -a["size"][0] / 16]]
            if sorted(map(tuple, ob["footprint"][:4])) != sorted(map(tuple, wl)):
                return f"{w}: footprint {ob['footprint']} is not length x width = {a['size'][1] / 8} x {a['size'][0] / 8}"
            if ob["pts"] != a["pts"]:
                return f"{w}: pointcloud_num {ob['pts']} but num_lidar_pts {a['pts']}"
            want_vis = expected_visibility(vis[a["vis"]]) if ds["visibility"] else None
            if ob["vis"] != want_vis:
                return f"{w}: visibility {ob['vis']} but level {vis.get(a['vis'])!r} means {want_vis}"
            if ob["unix_time"] != s["timestamp"] or ob["frame_id"] != frame.upper() or ob["score"] != 1.0:
                return f"{w}: unix_time/frame_id/score = {ob['unix_time']}/{ob['frame_id']}/{ob['score']}"
            p, q = fv(a["t"]), fq(a["q"])
            if frame == "map":
                if ob["pos"] != _vf(a["t"]) or not same_rotation(ob["ori"], q):
                    return f"{w}: map-frame pose {ob['pos']} {ob['ori']} is not the annotated global pose {_vf(a['t'])} {_qf(a['q'])}"
            else:
                pe = rotv(qconj(qe), vsub(p, te))
                oe = qmul(qconj(qe), q)
                ps = rotv(qconj(qc), vsub(pe, tc))
                os_ = qmul(qconj(qc), oe)
                if not close(ob["pos"], ps) or not same_rotation(ob["ori"], os_):
                    how = "inverse ego pose" + ("" if (qc, tc) == ([1, 0, 0, 0], [0, 0, 0]) else " and inverse lidar calibration")
                    return (f"{w}: base_link pose {ob['pos']} {ob['ori']} is not the annotated pose moved by the {how}: "
                            f"{[float(x) for x in ps]} {[float(x) for x in os_]}")
                # the stored transform (with the lidar calibration, if any) maps the loaded pose back onto the annotated one
                mp = [Fraction(x) for x in ob["pos"]]
                mo = [Fraction(x) for x in ob["ori"]]
                M = [Fraction(x) for x in tf["matrix"]]
                mp = vadd(rotv(qc, mp), tc)
                back = [M[0] * mp[0] + M[1] * mp[1] + M[2] * mp[2] + M[3], M[4] * mp[0] + M[5] * mp[1] + M[6] * mp[2] + M[7],
                        M[8] * mp[0] + M[9] * mp[1] + M[10] * mp[2] + M[11]]
                bo = qmul([Fraction(x) for x in tf["rot"]], qmul(qc, mo))
                if not close(back, p, 1e-8) or not same_rotation(bo, q, 1e-8):
                    return f"{w}: the stored ego-to-map transform maps the loaded pose to {[float(x) for x in back]}, annotated {_vf(a['t'])}"
                # ... and so does TransformDict.transform((BASE_LINK, MAP), position, orientation) when the lidar sits at the ego origin
                if (qc, tc) == ([1, 0, 0, 0], [0, 0, 0]) and ob.get("to_map") is not None:
                    if not close(ob["to_map"]["pos"], p, 1e-8) or not same_rotation(ob["to_map"]["ori"], q, 1e-8):
                        return (f"{w}: frame.transforms.transform((BASE_LINK, MAP), pose) gives {ob['to_map']['pos']} {ob['to_map']['ori']}, "
                                f"annotated global pose {_vf(a['t'])} {_vf(a['q']) if 'q' in a else ''}")
            # tracking history
            if task != "tracking":
                if ob["hist"] is not None:
                    return f"{w}: a {task} object carries a tracked path"
                continue
            if ob["hist"] is None:
                return f"{w}: a tracking object carries no tracked path"
            earlier = sorted([b for b in ds["ann"] if b["instance"] == a["instance"] and stime[b["sample"]] < s["timestamp"]],
                             key=lambda b: -stime[b["sample"]])
            past = []
            for b in earlier:
                if s["timestamp"] - stime[b["sample"]] >= WINDOW_US or len(past) >= MAX_HISTORY:
                    break
                past.append(b)
            if len(ob["hist"]) != len(past):
                return f"{w}: history of {len(ob['hist'])} poses, but the instance has {len(past)} annotations in the preceding 3.15 s (max 6)"
            for k, (b, h) in enumerate(zip(past, ob["hist"])):
                if h["pos"] != _vf(b["t"]) or not same_rotation(h["ori"], fq(b["q"])) or h["size"] != _vf(b["size"]):
                    return f"{w}: history entry {k} {h} is not the pose annotated by {b['token']} in the {k + 1}-th preceding sample of the instance"
    return None


def _cat_attr_lists(ds):
    """category name (as the converter sees it: lower-cased) -> list of (sample token, attribute name list) of its annotations"""
    cat = {c["token"]: c["name"] for c in ds["category"]}
    inst = {i["token"]: i for i in ds["instance"]}
    attr = {a["token"]: a["name"] for a in ds["attribute"]}
    out = {}
    for a in ds["ann"]:
        try:
            out.setdefault(cat[inst[a["instance"]]["category"]].lower(), []).append((a["sample"], [attr[t] for t in a["attrs"]]))
        except KeyError:
            pass
    return out


def same_category_other_attributes(case):
    """which of the three situations the case contains (evidence only)"""
    out = set()
    A = _cat_attr_lists(case["ds"])
    for rows in A.values():
        for i, (s1, l1) in enumerate(rows):
            for s2, l2 in rows[i + 1:]:
                if l1 != l2:
                    out.add("same_frame" if s1 == s2 else "later_frame")
    if case.get("extra") is not None and case.get("multi") and case.get("share_converter") and len(set(case["multi"]["paths"])) > 1:
        B = _cat_attr_lists(case["extra"])
        for name in set(A) & set(B):
            if any(l1 != l2 for _, l1 in A[name] for _, l2 in B[name]):
                out.add("later_dataset_through_one_converter")
    return out


def cross_frame(ds, configs, obs):
    """the same dataset loaded in both frames: same frames, ids, labels in the same order"""
    by = {}
    for (t, f, m), o in zip(configs, obs):
        if "error" not in o:
            by.setdefault(f, []).append(o)
    if "map" in by and "base_link" in by:
        a, b = by["map"][0]["frames"], by["base_link"][0]["frames"]
        if [[o["uuid"] for o in fr["objects"]] for fr in a] != [[o["uuid"] for o in fr["objects"]] for fr in b]:
            return "the map-frame and the base_link-frame load disagree on the objects of a frame"
        if [fr["ego2map"] for fr in a] != [fr["ego2map"] for fr in b]:
            return "the map-frame and the base_link-frame load store different ego-to-map transforms"
    return None


# ------------------------------------------------------------------------------------------------
# malformed datasets (one fault each): only the model correspondence speaks about them
# ------------------------------------------------------------------------------------------------
FAULTS = ["dangling_instance", "dangling_category", "dangling_ego", "dangling_vis", "dangling_attr", "dangling_next", "dangling_prev",
          "dangling_cs_sensor", "no_lidar", "bad_channel", "no_samples", "dangling_sd_sample", "dangling_ann_sample"]


def inject_fault(ds, kind, rng):
    """Returns True if the fault could be injected."""
    if kind == "no_samples":
        ds["samples"], ds["sample_data"], ds["ann"] = [], [], []
        return True
    if kind in ("dangling_instance", "dangling_vis", "dangling_attr", "dangling_next", "dangling_prev", "dangling_ann_sample"):
        if not ds["ann"] or (kind == "dangling_vis" and not ds["visibility"]):
            return False
        a = rng.choice(ds["ann"])
        key = {"dangling_instance": "instance", "dangling_vis": "vis", "dangling_next": "next", "dangling_prev": "prev",
               "dangling_ann_sample": "sample"}.get(kind)
        if key:
            a[key] = "nosuchtoken"
        else:
            a["attrs"] = a["attrs"] + ["nosuchtoken"]
        return True
    if kind == "dangling_category":
        used = {a["instance"] for a in ds["ann"]}
        cand = [i for i in ds["instance"] if i["token"] in used]
        if not cand:
            return False
        rng.choice(cand)["category"] = "nosuchtoken"
        return True
    sensor = {s["token"]: s for s in ds["sensor"]}
    cs = {c["token"]: c for c in ds["calibrated_sensor"]}
    lidar_sds = [d for d in ds["sample_data"] if d["key"] and sensor[cs[d["cs"]]["sensor"]]["modality"] == "lidar"]
    if kind == "dangling_ego":
        for d in lidar_sds:
            if d["sample"] == lidar_sds[0]["sample"]:
                d["ego"] = "nosuchtoken"
        return True
    if kind == "dangling_sd_sample":
        rng.choice(lidar_sds)["sample"] = "nosuchtoken"
        return True
    if kind == "no_lidar":
        victim = rng.choice(ds["samples"])["token"]
        for d in lidar_sds:
            if d["sample"] == victim:
                d["key"] = False
        return True
    if kind == "dangling_cs_sensor":
        ds["calibrated_sensor"].append({"token": "extra_cs", "sensor": "nosuchtoken", "q": list(IDENT_Q), "t": [0, 0, 0]})
        return True
    if kind == "bad_channel":
        ds["sensor"].append({"token": "extra_sensor", "channel": rng.choice(["FOO", "LIDAR", "cam"]), "modality": "radar"})
        ds["calibrated_sensor"].append({"token": "extra_cs", "sensor": "extra_sensor", "q": list(IDENT_Q), "t": [8, 0, 0]})
        return True
    return False


# ------------------------------------------------------------------------------------------------
# the correspondence
# ------------------------------------------------------------------------------------------------
def pick_configs(rng):
    """both frames x {tracking, a non-tracking task}; merge flag and detection/sensing vary"""
    out = []
    for frame in FRAMES:
        out.append(["tracking", frame, rng.random() < 0.5])
        out.append([rng.choice(["detection", "sensing"]), frame, rng.random() < 0.5])
    rng.shuffle(out)
    return out


class LoadCorr(Corr):
    name = "load"
    header = HEADER
    requires = ["Model/Dataset.vo", "Base/CaseUtil.vo"]
    shard = 12
    parallel_min = 4

    def cases(self, tier, rng):
        out = []

        def add(stream, ds, configs=None, fault=None):
            configs = configs or pick_configs(rng)
            case = {"stream": stream, "ds": ds, "configs": configs, "fault": fault}
            # representation of the frame_id argument: a FrameID, a list or a tuple of one FrameID
            case["fid_forms"] = [rng.choice(["bare", "list", "tuple"]) for _ in configs]
            # one converter per (task, merge) for all loads of the case, as a manager holds one (with label counting: the
            # configuration classes' default), or a fresh one per load
            case["share_converter"] = rng.random() < 0.6
            case["count_labels"] = rng.random() < 0.5
            if fault is None and (len(out) < 2 or rng.random() < 0.5):
                # one configuration loads several dataset paths (a second, small dataset B; A twice; B first)
                case["extra"] = gen_dataset(rng, K=rng.randint(1, 3), M=rng.randint(0, 3))
                if rng.random() < 0.6:
                    alias_tokens(ds, case["extra"], rng)
                case["multi"] = {"config": rng.randrange(len(configs)),
                                 "paths": rng.choice([["A", "B"], ["B", "A"], ["A", "A"], ["A", "B", "A"], ["A", "B"]])}
            out.append(case)

        n_typ, n_bnd, n_mal = (110, 50, 26) if tier == "quick" else (1500, 700, 260)
        # regression / witnesses first: the smallest dataset, and one with everything, under all 12 configurations
        add("typical", gen_dataset(rng, K=1, M=1, shuffle_samples=False), ALL_CONFIGS)
        add("typical", gen_dataset(rng, K=5, M=4, shuffle_samples=True, ident_calib=False), ALL_CONFIGS)
        for _ in range(n_typ):
            add("typical", gen_dataset(rng))
        for i in range(n_bnd):
            kind = i % 7
            if kind == 0:      # sample times exactly at / next to the 3.15 s history window
                ds = gen_dataset(rng, K=rng.randint(2, 5), M=rng.randint(1, 4), steps=[3150000, 3149999, 3150001, 1575000, 1050000], p_present=1.0)
            elif kind == 1:    # more than 6 preceding samples inside the window
                ds = gen_dataset(rng, K=8, M=rng.randint(1, 3), steps=[100000, 400000, 450000], p_present=rng.choice([1.0, 0.9]))
            elif kind == 2:    # no visibility table
                ds = gen_dataset(rng, empty_vis=True)
            elif kind == 3:    # no objects at all / a single sample
                ds = gen_dataset(rng, M=0) if i % 2 else gen_dataset(rng, K=1)
            elif kind == 4:    # table order differs from time order, general calibration
                ds = gen_dataset(rng, K=rng.randint(3, 8), shuffle_samples=True, ident_calib=False)
            elif kind == 5:    # long gaps: histories cut by the window
                ds = gen_dataset(rng, K=rng.randint(3, 8), M=rng.randint(1, 4), steps=[2000000, 3200000, 1200000, 3150000], p_present=1.0)
            else:              # lidar at the ego origin (the T4 case of the property text), dense instances
                ds = gen_dataset(rng, K=rng.randint(2, 8), M=rng.randint(2, 6), ident_calib=True, p_present=0.8)
            add("boundary", ds)
        for i in range(n_mal):
            ds = gen_dataset(rng, K=rng.randint(1, 4), M=rng.randint(1, 4))
            fault = FAULTS[i % len(FAULTS)]
            if inject_fault(ds, fault, rng):
                add("malformed", ds, fault=fault)
        return out

    def run_impl(self, case):
        return run_dataset(case["ds"], case["configs"], case)

    def coq_term(self, case, obs):
        items = [f"({COQ_TASK[t]}, {COQ_FRAME[f]}, {blit(m)}, {coq_obs(o)})" for (t, f, m), o in zip(case["configs"], obs)]
        return share_atoms(f"(check_case {coq_dataset(case['ds'])}\n {llit(items)})")

    def coq_debug(self, case, obs):
        t, f, m = case["configs"][0]
        return share_atoms(f"(load {coq_dataset(case['ds'])} {COQ_TASK[t]} {COQ_FRAME[f]} {blit(m)})")

    def oracle(self, case, obs):
        if case["fault"]:
            return None     # the property speaks about well-formed datasets only
        for (t, f, m), o in zip(case["configs"], obs):
            if "paths" in o:
                # several dataset paths: the frames of every dataset, each as if loaded alone, in the order of the paths
                dss = [case["ds"] if p == "A" else case["extra"] for p in o["paths"]]
                if o["segments"] is None:
                    return (f"[{t}, {f}, merge={m}] loading the paths {o['paths']} yields {o['n_loaded']} frames for datasets of "
                            f"{[len(d['samples']) for d in dss]} samples")
                for k, (d, seg) in enumerate(zip(dss, o["segments"])):
                    msg = oracle_config(d, t, f, m, {"frames": seg})
                    if msg:
                        return f"[{t}, {f}, merge={m}] paths {o['paths']}, dataset {k} ({o['paths'][k]}): {msg}"
                continue
            msg = oracle_config(case["ds"], t, f, m, o)
            if msg:
                return f"[{t}, {f}, merge={m}] {msg}"
        return cross_frame(case["ds"], case["configs"], obs)

    def nontrivial(self, case, obs):
        ds = case["ds"]
        if case["fault"] or len(ds["samples"]) < 2 or not ds["ann"]:
            return False
        return any(a["prev"] for a in ds["ann"])

    def describe(self, case, obs):
        ds = case["ds"]
        return {"case": {"stream": case["stream"], "fault": case["fault"], "configs": case["configs"],
                         "n_samples": len(ds["samples"]), "n_annotations": len(ds["ann"]), "n_sensors": len(ds["sensor"]),
                         "categories": [c["name"] for c in ds["category"]], "visibility_levels": [v["level"] for v in ds["visibility"]]},
                "observed": [({"error": o["error"]} if "error" in o else
                              {"frames": [{"unix_time": fr["unix_time"], "objects": [[ob["uuid"], ob["label"], ob["vis"]] for ob in fr["objects"]]}
                                          for fr in o["frames"][:3]]}) for o in obs[:2]]}

    def distribution(self, cases, obs):
        d = {"streams": {}, "samples_per_dataset": {}, "annotations_total": 0, "objects_observed": 0, "configs": {}, "labels": {},
             "visibility": {}, "history_lengths": {}, "errors": {}, "identity_calibration": 0, "general_calibration": 0,
             "table_order_differs_from_time_order": 0, "sensors_per_dataset": {}, "registered_category": 0, "unregistered_category": 0,
             "frame_id_argument": {}, "loads_of_several_paths": {}, "frames_checked_in_loads_of_several_paths": 0,
             "cases_with_one_converter_for_all_loads": 0, "of_them_counting_labels": 0,
             "loaded_velocity": {"None": 0, "estimated": 0},
             "cases_with_two_annotations_of_one_category_name_and_different_attribute_lists": {"same_frame": 0, "later_frame": 0,
                                                                                               "later_dataset_through_one_converter": 0},
             "second_dataset_reusing_tokens_of_the_first": 0, "sample_spacing_1us": 0,
             "base_link_objects_loaded_under_an_ego_pose_with_roll_or_pitch": 0}
        for c, ob in zip(cases, obs):
            ds = c["ds"]
            tw = same_category_other_attributes(c)
            for k in tw:
                d["cases_with_two_annotations_of_one_category_name_and_different_attribute_lists"][k] += 1
            d["second_dataset_reusing_tokens_of_the_first"] += bool((c.get("extra") or {}).get("aliased"))
            tss = sorted(s["timestamp"] for s in ds["samples"])
            d["sample_spacing_1us"] += any(b - a == 1 for a, b in zip(tss, tss[1:]))
            if not c["fault"]:
                for (t, f, m) in c["configs"]:
                    if f == "base_link":
                        for s in ds["samples"]:
                            rec = lidar_records(ds, s["token"])
                            if rec and (rec[0]["q"][1] or rec[0]["q"][2]):
                                d["base_link_objects_loaded_under_an_ego_pose_with_roll_or_pitch"] += sum(1 for a in ds["ann"] if a["sample"] == s["token"])
            for form in c.get("fid_forms") or []:
                d["frame_id_argument"][form] = d["frame_id_argument"].get(form, 0) + 1
            if c.get("share_converter"):
                d["cases_with_one_converter_for_all_loads"] += 1
                d["of_them_counting_labels"] += 1 if c.get("count_labels") else 0
            if c.get("multi"):
                k = "+".join(c["multi"]["paths"])
                d["loads_of_several_paths"][k] = d["loads_of_several_paths"].get(k, 0) + 1
            d["streams"][c["stream"]] = d["streams"].get(c["stream"], 0) + 1
            k = str(len(ds["samples"]))
            d["samples_per_dataset"][k] = d["samples_per_dataset"].get(k, 0) + 1
            k = str(len(ds["sensor"]))
            d["sensors_per_dataset"][k] = d["sensors_per_dataset"].get(k, 0) + 1
            d["annotations_total"] += len(ds["ann"])
            sensor = {s["token"]: s for s in ds["sensor"]}
            lid = [x for x in ds["calibrated_sensor"] if x["sensor"] in sensor and sensor[x["sensor"]]["modality"] == "lidar"]
            if lid and all(x["q"] == list(IDENT_Q) and x["t"] == [0, 0, 0] for x in lid):
                d["identity_calibration"] += 1
            else:
                d["general_calibration"] += 1
            ts = [s["timestamp"] for s in ds["samples"]]
            if ts != sorted(ts):
                d["table_order_differs_from_time_order"] += 1
            for cat in ds["category"]:
                d["registered_category" if cat["name"].lower() in EXPECT_LABEL else "unregistered_category"] += 1
            if not isinstance(ob, list):
                continue
            for (t, f, m), o in zip(c["configs"], ob):
                key = f"{t}/{f}/{'merge' if m else 'nomerge'}"
                d["configs"][key] = d["configs"].get(key, 0) + 1
                if "error" in o:
                    d["errors"][o["error"]] = d["errors"].get(o["error"], 0) + 1
                    continue
                if o.get("segments"):
                    d["frames_checked_in_loads_of_several_paths"] += sum(len(sg) for sg in o["segments"])
                for fr in o["frames"]:
                    for x in fr["objects"]:
                        d["objects_observed"] += 1
                        d["loaded_velocity"]["None" if x.get("velocity_none") else "estimated"] += 1
                        d["labels"][x["label"]] = d["labels"].get(x["label"], 0) + 1
                        d["visibility"][str(x["vis"])] = d["visibility"].get(str(x["vis"]), 0) + 1
                        if x["hist"] is not None:
                            hk = str(len(x["hist"]))
                            d["history_lengths"][hk] = d["history_lengths"].get(hk, 0) + 1
        return d


class C16(Prop):
    id = "C16"
    props_file = "Props/C16.v"
    gen_files = ["LabelTables.v", "Enums.v"]
    design_ref = "DESIGN.md section 4, C16"
    technique = ("Rocq proof about an executable model of the loader AND of the nuscenes-devkit calls it makes (tables as lists of records, "
                 "rational unit quaternions); in-Coq correspondence on dataset directories written by the harness and loaded by the real "
                 "load_all_datasets")
    level_text = ("Theorems (Props/C16.v, closed under the global context) about load = the model of load_all_datasets + the devkit calls it makes, "
                  "for ALL datasets of any size, both frame ids, detection/tracking/sensing, merge on/off: every successful load has one frame per "
                  "sample in sample-TABLE order, named by its index, with the sample's timestamp; the j-th object of a frame is made from the j-th "
                  "annotation of the sample (table order) and carries its instance token, LabelConverter label of the category name (C14 facts "
                  "re-proved on the regenerated tables: registered names, UNKNOWN otherwise, merge map), attribute names, (w,l,h) size, point count, "
                  "Visibility.from_value of the level (always an enum member), timestamp and frame id; map frame = the annotated pose exactly; "
                  "base_link frame = the pose moved by the inverse ego pose and the inverse lidar calibration of the sample's lidar key frame "
                  "(= inverse ego pose alone when the lidar is calibrated at the ego origin); for well-formed datasets the transform stored under "
                  "(BASE_LINK, MAP) is that ego pose for both frame ids and maps every base_link pose onto the map pose (position and quaternion "
                  "component-wise); tracking histories are exactly the prev-chain of the same instance, global poses as annotated, < 3.15 s old, at most "
                  "6, maximal; no history for other tasks. Correspondence: dataset directories written by the harness and loaded by the real "
                  "load_all_datasets, compared inside Coq with the model on the same tables. Run-time oracle only (not the theorems): a load of "
                  "several dataset paths yields the frames of each dataset in the order of the paths; list / tuple / bare frame_id argument; one "
                  "LabelConverter shared by successive loads.")
    level_note = ("WEAKEST TIE OF ALL PROPERTIES: nuscenes-devkit (NuScenes.__init__/reverse index/get/get_sample_data/get_boxes/Box.translate/rotate, "
                  "PredictHelper._iterate), json parsing and file I/O are MODELLED from reading their source, not translated; the model is tied to the "
                  "code only by this run's correspondence (generated directories, 1-8 samples) and by nothing for inputs outside the generator "
                  "(duplicate tokens, non-unit quaternions, camera/TLR sample_data, non-key-frame interpolation, 2D tasks, fp_validation, prediction, "
                  "load_raw_data=True). Exceptions are compared by type only. Trusted: Coq kernel+vm_compute, translator for the label/enum tables, "
                  "the harness' writer of the JSON tables and its observation of FrameGroundTruth/DynamicObject attributes.")
    rule = ("per case one generated dataset directory (1-8 samples in time or shuffled table order, 0-6 instances appearing/disappearing with prev/next "
            "chains, 1-5 categories registered/unregistered/case variants, 0-4 attributes, 1-6 visibility levels incl. aliases or an empty table, 1-3 "
            "sensors with LIDAR_TOP and/or LIDAR_CONCAT, key and non-key sample_data, rational unit quaternions, k/8 translations, identity or general "
            "lidar calibration) loaded under 4 (first two cases: all 12) configurations covering both frame ids x tracking/non-tracking with random "
            "merge flag; the frame_id argument is passed as a FrameID, a list or a tuple of one FrameID; in 60% of the cases ONE LabelConverter per "
            "(task, merge) serves all loads of the case (half of them counting labels, the configuration classes' default); in half of the "
            "well-formed cases one configuration loads SEVERAL paths (A+B, B+A, A+A, A+B+A with a second dataset B of 1-3 samples): the oracle "
            "demands the frames of every dataset, each as if loaded alone, in the order of the paths (the model sees A's share); in 60% of those loads "
            "the second dataset REUSES the first one's category / attribute / visibility / instance / calibrated-sensor / ego-pose / sample tokens "
            "for other records and names one of its categories like a category the first dataset annotates (nothing may be remembered per "
            "token or per name from one dataset to the next); in half of the datasets two instances share ONE category and their annotations "
            "carry different attribute lists, in the same sample and changing from sample to sample (same frame / later frame / later dataset "
            "through one converter: counted in the distribution); sample spacings include 1 us; boundary stream: sample spacing exactly 3.15 s +- 1 us, > 6 preceding samples, empty visibility table, no objects, single "
            "sample; malformed stream (model tie only): 13 single faults -> KeyError/ValueError/DatasetLoadingError. Compared: number/order/names/"
            "timestamps of frames, per-frame object uuids in order, labels, kept names, attributes, sizes (exact), point counts, visibility, positions "
            "and orientations (1e-9, orientation up to sign), frame ids, the stored (BASE_LINK, MAP) matrix and every stored transform, tracking "
            "histories. non-trivial = well-formed, >= 2 samples and some instance annotated in >= 2 samples")
    assumptions = ["unique tokens, resolving references, unit quaternions (wf) for the transform and history theorems; the frame/object/pose theorems "
                   "hold for every successful load",
                   "Quaternion.inverse = conjugate (unit quaternions); pyquaternion's implicit normalisation not modelled",
                   "PredictHelper's float window test abs(dt)/1e6 < 3.0+0.15 == integer test |dt| < 3150000 us (exercised at 3149999/3150000/3150001)",
                   "implementation receives the nearest binary64 of the rational inputs; poses compared within 1e-9"]
    not_proved = ["the devkit, JSON parsing and file I/O themselves (modelled from source, validated by this correspondence only)",
                  "velocities (_get_box_velocity / box_velocity: only their table look-ups are modelled, for the exception behaviour), raw data loading",
                  "2D tasks (_sample_to_frame_2d), fp_validation label check, prediction; camera sample_data and the averaged traffic-light transform "
                  "(Err Unmodelled in the model)",
                  "in the base_link frame the tracking history is NOT moved to the ego frame: the implementation returns the global annotated poses "
                  "(PredictHelper ignores in_agent_frame when just_xy=False); the theorem states exactly that"]

    def correspondences(self):
        return [LoadCorr()]

    def cleanup(self):
        cleanup_all()


READY = True
PROP = C16()
