"""Shared by C04 / C08: generation of object-result sets, facts for the AP model, reference AP."""
import math
from fractions import Fraction

from harness.lib.core import blit, llit, olit, qlit

LABELS = ["car", "bicycle", "pedestrian", "unknown", "false_positive"]
MODES = ["CENTERDISTANCE", "PLANEDISTANCE", "IOU2D", "IOU3D"]
MAXIMIZE = {"CENTERDISTANCE": False, "PLANEDISTANCE": False, "IOU2D": True, "IOU3D": True}
POLICIES = ["DEFAULT", "ALLOW_UNKNOWN", "ALLOW_ANY"]
YAWS = [0.0, math.pi / 2, math.pi, -math.pi / 2, math.pi / 4, -3 * math.pi / 4, 0.3, -0.3, 2.9]


def _mods():
    from perception_eval.common.label import AutowareLabel, Label
    from perception_eval.common.object import DynamicObject
    from perception_eval.common.schema import FrameID
    from perception_eval.common.shape import Shape, ShapeType
    from perception_eval.evaluation.matching.object_matching import MatchingLabelPolicy, MatchingMode
    from perception_eval.evaluation.result.object_result import DynamicObjectWithPerceptionResult
    from pyquaternion import Quaternion

    return locals()


def make_object(spec, uuid, dim="3d"):
    M = _mods()
    lab = {"car": M["AutowareLabel"].CAR, "bicycle": M["AutowareLabel"].BICYCLE, "pedestrian": M["AutowareLabel"].PEDESTRIAN,
           "unknown": M["AutowareLabel"].UNKNOWN, "false_positive": M["AutowareLabel"].FP}[spec["label"]]
    if dim == "2d":
        # the same spec as a 2D object with an integer ROI (IOU3D / plane distance do not exist for it: get_matching(mode) is None)
        from perception_eval.common.object2d import DynamicObject2D

        roi = (int(8 * (spec["pos"][0] + 64)), int(8 * (spec["pos"][1] + 64)), int(8 * spec["size"][0]) + 1, int(8 * spec["size"][1]) + 1)
        return DynamicObject2D(unix_time=100, frame_id=M["FrameID"].CAM_FRONT, semantic_score=spec.get("conf", 1.0),
                               semantic_label=M["Label"](lab, spec["label"], []), roi=roi, uuid=uuid)
    ori = M["Quaternion"](axis=(0.0, 0.0, 1.0), radians=spec["yaw"])
    if spec.get("tilt"):
        # a slightly tilted box (roll, pitch): its heading is still the yaw of the documented yaw-pitch-roll decomposition
        ori = ori * M["Quaternion"](axis=(0.0, 1.0, 0.0), radians=spec["tilt"][1]) * M["Quaternion"](axis=(1.0, 0.0, 0.0), radians=spec["tilt"][0])
    return M["DynamicObject"](
        unix_time=100, frame_id=M["FrameID"].BASE_LINK,
        position=tuple(spec["pos"]), orientation=ori,
        shape=M["Shape"](M["ShapeType"].BOUNDING_BOX, tuple(spec["size"])), velocity=(0.0, 0.0, 0.0),
        semantic_score=spec.get("conf", 1.0), semantic_label=M["Label"](lab, spec["label"], []), uuid=uuid,
    )


def make_results(scene):
    """scene: {"policy", "results": [{"est": spec, "gt": spec|None}]} -> list of real object results."""
    M = _mods()
    pol = M["MatchingLabelPolicy"][scene["policy"]]
    out = []
    for i, r in enumerate(scene["results"]):
        est = make_object(r["est"], f"e{i}", scene.get("dim", "3d"))
        gt = make_object(r["gt"], f"g{i}", scene.get("dim", "3d")) if r["gt"] is not None else None
        out.append(M["DynamicObjectWithPerceptionResult"](est, gt, pol))
    return out


def label_enum(name):
    M = _mods()
    return {"car": M["AutowareLabel"].CAR, "bicycle": M["AutowareLabel"].BICYCLE, "pedestrian": M["AutowareLabel"].PEDESTRIAN,
            "unknown": M["AutowareLabel"].UNKNOWN, "false_positive": M["AutowareLabel"].FP}[name]


def gen_spec(rng, label=None, near=None, labels=None):
    """labels (optional): a label pool the object's label is drawn from in 85 % of the draws (concentrates a scene on few labels)"""
    if labels and label is None and rng.random() < 0.85:
        label = rng.choice(labels)
    lab = label or rng.choice(LABELS[:3] if rng.random() < 0.8 else LABELS)
    if near is not None and rng.random() < 0.85:
        # offsets with integer-hypotenuse options so that distances tie with thresholds exactly
        dx, dy = rng.choice([(0, 0), (0.5, 0), (0, 1), (3, 4), (0.75, 1), (1.5, 2), (0.375, 0.5), (6, 8), (0.125, 0), (2, 0), (0, -0.5), (-1, 1)])
        pos = [near["pos"][0] + dx, near["pos"][1] + dy, near["pos"][2] + rng.choice([0, 0, 0.5])]
        size = near["size"] if rng.random() < 0.6 else [rng.randint(1, 32) / 8 for _ in range(3)]
        yaw = near["yaw"] if rng.random() < 0.5 else rng.choice(YAWS)
    else:
        pos = [rng.randint(-400, 400) / 8, rng.randint(-400, 400) / 8, rng.randint(-8, 8) / 8]
        size = [rng.randint(1, 40) / 8 for _ in range(3)]
        yaw = rng.choice(YAWS)
    return {"label": lab, "pos": pos, "size": size, "yaw": yaw}


def gen_scene(rng, n=None, tie_heavy=False, labels=None, tilt_prob=0.0):
    """labels (optional, default None = the historical label mix): see gen_spec; tilt_prob (optional, default 0 = no extra random draw):
    probability that the objects of the scene are slightly tilted (roll / pitch), estimate and ground truth differently"""
    n = rng.randint(0, 14) if n is None else n
    tilted = tilt_prob > 0 and rng.random() < tilt_prob
    results = []
    for _ in range(n):
        gt = gen_spec(rng, labels=labels) if rng.random() < 0.8 else None
        if gt is not None:
            same = rng.random() < 0.75
            est = gen_spec(rng, label=gt["label"] if same and gt["label"] != "false_positive" else None, near=gt, labels=labels)
        else:
            est = gen_spec(rng, labels=labels)
        if tilted:
            est["tilt"] = [rng.uniform(-0.06, 0.06), rng.uniform(-0.06, 0.06)]
            if gt is not None:
                gt["tilt"] = [rng.uniform(-0.06, 0.06), rng.uniform(-0.06, 0.06)]
        est["conf"] = rng.choice([0.5, 0.75, 0.25]) if tie_heavy else rng.randint(0, 64) / 64
        if not tie_heavy and 0 < est["conf"] < 1 and rng.random() < 0.2:
            # distinct but within float32 resolution of a lattice value (the ranking is by the exact confidence)
            est["conf"] += rng.choice([1, -1, 2, -3]) * 2.0 ** -rng.choice([30, 40])
        results.append({"est": est, "gt": gt})
    return {"policy": rng.choice(POLICIES), "results": results}


def threshold_for(rng, mode, zero=False):
    """zero (optional, default False = the historical pools): the distance pool also holds the falsy-but-valid 0.0 (no distance is below it)"""
    if MAXIMIZE[mode]:
        return rng.choice([0.0, 0.1, 0.25, 0.5, 0.75, 1.0, 1.0 / 3])
    return rng.choice([0.125, 0.5, 1.0, 1.25, 2.0, 2.5, 5.0, 10.0, 0.625] + ([0.0] if zero else []))


def heading_weight_ref(result):
    """1 - d / pi with d the smallest difference of the two yaw angles (yaw of the documented yaw-pitch-roll decomposition of each
    orientation), computed here from the orientations alone -- independent of TPMetricsAph / get_heading_bev; None without ground truth
    or for 2-D objects"""
    gt, est = result.ground_truth_object, result.estimated_object
    if gt is None or getattr(getattr(est, "state", None), "orientation", None) is None or getattr(getattr(gt, "state", None), "orientation", None) is None:
        return None
    d = (est.state.orientation.yaw_pitch_roll[0] - gt.state.orientation.yaw_pitch_roll[0]) % (2 * math.pi)
    d = min(d, 2 * math.pi - d)
    return 1.0 - d / math.pi


def facts(scene, results, mode, target_labels, thresholds, tp_metrics):
    """What the AP model is fed, read from the real objects through public API."""
    from perception_eval.common.threshold import get_label_threshold
    from perception_eval.evaluation.matching.object_matching import MatchingMode

    mm = MatchingMode[mode]
    tl = [label_enum(x) for x in target_labels]
    out = []
    for i, r in enumerate(results):
        gt = r.ground_truth_object
        lab = gt.semantic_label if gt is not None else r.estimated_object.semantic_label
        thr = get_label_threshold(lab, tl, thresholds)
        mt = r.get_matching(mm)
        out.append({
            "rid": i, "conf": r.estimated_object.semantic_score, "has_gt": gt is not None,
            "gt_fp": bool(gt is not None and gt.semantic_label.is_fp()), "lab_ok": bool(r.is_label_correct),
            "thr": thr, "matching": None if mt is None else {"value": mt.value},
            "weight": tp_metrics.get_value(r), "weight_is_heading": type(tp_metrics).__name__ == "TPMetricsAph", "weight_ref": heading_weight_ref(r),
            "est_label": scene["results"][i]["est"]["label"],
            "gt_label": scene["results"][i]["gt"]["label"] if scene["results"][i]["gt"] else None,
        })
    return out


def res_lit(f, thr_override=None, weight_override=None):
    thr = f["thr"] if thr_override is None else thr_override
    mt = "None" if f["matching"] is None else f"(Some {olit(f['matching']['value'], qlit)})"
    w = f["weight"] if weight_override is None else weight_override
    return (f"(mkRes {f['rid']} {qlit(f['conf'])} {blit(f['has_gt'])} {blit(f['gt_fp'])} {blit(f['lab_ok'])} "
            f"{olit(thr, qlit)} {mt} {qlit(w)})")


def mode_lit(mode):
    return "Maximize" if MAXIMIZE[mode] else "Minimize"


def inf_to_none(x):
    return None if x == float("inf") else x


# ---- independent reference (exact rationals), a direct reading of the property text ----------------
def ref_correct(f, maximize, thr):
    if not f["has_gt"]:
        return False
    v = None if f["matching"] is None else f["matching"]["value"]
    if f["matching"] is None:
        return f["lab_ok"]
    better = False if v is None else (Fraction(v) > Fraction(thr) if maximize else Fraction(v) < Fraction(thr))
    if f["gt_fp"]:
        return not better
    return better and f["lab_ok"]


def ref_ap(fs, maximize, num_gt, unit_weight=True, thr_of=None):
    """All-point interpolated AP from the property text; returns (ap or None, tps, n_tp)."""
    if not fs:
        return None, [], 0
    order = sorted(range(len(fs)), key=lambda i: -Fraction(fs[i]["conf"]))  # stable
    tps, cum, n_tp = [], Fraction(0), 0
    for i in order:
        f = fs[i]
        thr = f["thr"] if thr_of is None else thr_of(f)
        if thr is not None and ref_correct(f, maximize, thr):
            cum += Fraction(1) if unit_weight else Fraction(f["weight"])
            n_tp += 1
        tps.append(cum)
    prec = [tp / (i + 1) for i, tp in enumerate(tps)]
    rec = [tp / num_gt if num_gt > 0 else Fraction(0) for tp in tps]
    ap = Fraction(0)
    prev = Fraction(0)
    for i in range(len(tps)):
        ap += (rec[i] - prev) * max(prec[i:])
        prev = rec[i]
    return ap, tps, n_tp


LABEL_NAT = {"unknown": 0, "car": 1, "bicycle": 2, "pedestrian": 3, "false_positive": 4, "truck": 5, "bus": 6, "motorbike": 7, "animal": 8}


def facts_of_results(results, mode, tp_metrics, rid0=0):
    """facts for Model/AP.v from real object results of any origin (labels by enum value)"""
    from perception_eval.evaluation.matching.object_matching import MatchingMode

    mm = MatchingMode[mode]
    out = []
    for i, r in enumerate(results):
        gt = r.ground_truth_object
        mt = r.get_matching(mm)
        out.append({
            "rid": rid0 + i, "conf": r.estimated_object.semantic_score, "has_gt": gt is not None,
            "gt_fp": bool(gt is not None and gt.semantic_label.is_fp()), "lab_ok": bool(r.is_label_correct),
            "thr": None, "matching": None if mt is None else {"value": mt.value},
            "weight": tp_metrics.get_value(r),
            "est_label": r.estimated_object.semantic_label.label.value,
            "gt_label": gt.semantic_label.label.value if gt is not None else None,
        })
    return out


def lres_lit(f):
    return f"(mkL {res_lit(f)} {LABEL_NAT[f['est_label']]} {olit(f['gt_label'], lambda x: str(LABEL_NAT[x]) + '%nat')})"


MODE_BY_VALUE = {"Center Distance": "CENTERDISTANCE", "Plane Distance": "PLANEDISTANCE", "IoU 2D": "IOU2D", "IoU 3D": "IOU3D"}
