"""C10 -- object filtering keeps exactly the objects satisfying the configured criteria.

Correspondence: the real `filter_objects` / `filter_object_results` on generated DynamicObject /
DynamicObject2D lists versus Model/Filter.v, compared inside Coq as kept-index lists.
Oracle: an independent re-statement of the documented keep rule on the implementation's outputs,
plus idempotence, sub-list order, monotonicity under a widened configuration, inputs not mutated.
The object/frame builders below are reused by harness/props/C03.py."""
from fractions import Fraction

from harness.lib.core import Corr, Prop, blit, llit, olit, qlit, slit, zlit

# ------------------------------------------------------------------------------------------------
# building real objects from JSON descriptions
# ------------------------------------------------------------------------------------------------
NAMES = {
    "car": ["car", "vehicle.car", "vehicle.construction"],
    "truck": ["truck", "vehicle.truck", "trailer"],
    "bus": ["bus", "vehicle.bus"],
    "bicycle": ["bicycle", "vehicle.bicycle"],
    "motorbike": ["motorbike", "vehicle.motorcycle"],
    "pedestrian": ["pedestrian", "pedestrian.adult", "pedestrian.child"],
    "animal": ["animal"],
    "unknown": ["unknown", "movable_object.debris"],
    "false_positive": ["false_positive"],
    "green": ["green"], "red": ["red"], "traffic_light": ["traffic_light"],
}
ATTRS = ["vehicle_state.parked", "cycle_state.without_rider", "pedestrian_state.sitting", "occlusion_state.most"]


def _label_enum(family, value):
    from perception_eval.common.label import AutowareLabel, TrafficLightLabel

    E = AutowareLabel if family == "autoware" else TrafficLightLabel
    for m in E:
        if m.value == value:
            return m
    raise ValueError(value)


def label_id(label):
    """UNKNOWN / FP get the fixed ids 0/1 (autoware) and 100/101 (traffic light); others their own."""
    from perception_eval.common.label import AutowareLabel

    fam = 0 if isinstance(label, AutowareLabel) else 100
    if label.name == "UNKNOWN":
        return fam
    if label.name == "FP":
        return fam + 1
    others = [m for m in type(label) if m.name not in ("UNKNOWN", "FP")]
    return fam + 2 + others.index(label)


def build_object(d, frame, unix_time=100):
    """d: {family,label,name,attrs,conf,uuid,pos,pts,yaw_q,size} -> DynamicObject / DynamicObject2D."""
    from pyquaternion import Quaternion
    from perception_eval.common.label import Label
    from perception_eval.common.object import DynamicObject
    from perception_eval.common.object2d import DynamicObject2D
    from perception_eval.common.schema import FrameID
    from perception_eval.common.shape import Shape, ShapeType

    lab = Label(_label_enum(d.get("family", "autoware"), d["label"]), d["name"], list(d.get("attrs", [])))
    frame = d.get("frame", frame)            # optional per-object frame (lists of mixed frame)
    if frame == "cam":
        kw = {} if d.get("pos") is None else {"position": _pos_rep(d["pos"], d.get("pos_rep"))}     # optional 3D position of a 2D object
        return DynamicObject2D(unix_time, FrameID.CAM_FRONT, d["conf"], lab, roi=tuple(d.get("roi", (0, 0, 10, 10))), uuid=d.get("uuid"), **kw)
    fid = FrameID.BASE_LINK if frame == "base_link" else FrameID.MAP
    q = d.get("quat", [1.0, 0.0, 0.0, 0.0])
    return DynamicObject(
        unix_time, fid, _pos_rep(d["pos"], d.get("pos_rep")), Quaternion(q), Shape(ShapeType.BOUNDING_BOX, tuple(d.get("size", (2.0, 1.0, 1.0)))),
        (0.0, 0.0, 0.0), d["conf"], lab, pointcloud_num=d.get("pts"), uuid=d.get("uuid"))


def _pos_rep(pos, rep=None):
    """the position in another representation (optional spec key "pos_rep"): tuple of floats (default), list, numpy array, Python ints when integral"""
    if rep == "list":
        return [float(v) for v in pos]
    if rep == "ndarray":
        import numpy as np

        return np.array([float(v) for v in pos])
    if rep == "int" and all(float(v).is_integer() for v in pos):
        return tuple(int(v) for v in pos)
    return tuple(pos)


def build_transforms(tf, warmed=True):
    """tf: None | {"pos":[x,y,z], "quat":[w,x,y,z]} (ego pose: BASE_LINK -> MAP) | {"empty": True}."""
    from perception_eval.common.schema import FrameID
    from perception_eval.common.transform import HomogeneousMatrix, TransformDict

    if tf is None:
        return None
    if tf.get("empty"):
        return TransformDict()
    real = HomogeneousMatrix(tuple(tf["pos"]), tuple(tf["quat"]), src=FrameID.BASE_LINK, dst=FrameID.MAP)
    if tf.get("cam") is not None:
        # optional: the camera pose in the ego frame (CAM_FRONT -> BASE_LINK), needed by 2D objects that carry a 3D position
        cam = HomogeneousMatrix(tuple(tf["cam"]["pos"]), tuple(tf["cam"]["quat"]), src=FrameID.CAM_FRONT, dst=FrameID.BASE_LINK)
        return TransformDict([real, cam])
    if warmed and (int(abs(tf["pos"][0]) * 8) + int(abs(tf["pos"][1]) * 8)) % 2 == 1:
        # a registry that has ALREADY served another ego pose (both directions queried) and is then updated in place, as
        # interpolate_ground_truth_frames does with the deep-copied frame's transforms: only the current entry may count
        other = HomogeneousMatrix((tf["pos"][0] + 7.5, tf["pos"][1] - 3.25, tf["pos"][2]), (0.6, 0.0, 0.0, 0.8), src=FrameID.BASE_LINK, dst=FrameID.MAP)
        reg = TransformDict(other)
        reg.transform((FrameID.MAP, FrameID.BASE_LINK), (1.0, 2.0, 3.0))
        reg.transform((FrameID.BASE_LINK, FrameID.MAP), (1.0, 2.0, 3.0))
        reg[(FrameID.BASE_LINK, FrameID.MAP)] = real
        return reg
    return TransformDict(real)


def other_poses(rng, ego, k=2):
    """k ego poses different from `ego` (a moving ego: the poses a long-lived registry served before the one under test)"""
    pool = [q for q in ALL_POSES if q is not ego and q != ego]
    return [dict(q) for q in rng.sample(pool, k)]


def set_ego_pose(reg, pose):
    """update the BASE_LINK -> MAP entry of a live registry in place (what interpolate_ground_truth_frames does with a copied frame)"""
    from perception_eval.common.schema import FrameID
    from perception_eval.common.transform import HomogeneousMatrix

    reg[(FrameID.BASE_LINK, FrameID.MAP)] = HomogeneousMatrix(tuple(pose["pos"]), tuple(pose["quat"]), src=FrameID.BASE_LINK, dst=FrameID.MAP)


def build_cfg_kwargs(cfg, rep=None):
    """rep (optional): {"bounds": "tuple" | "ndarray" | "int", "ignore": "tuple", "extra": True} -- the same parameters in other REPRESENTATIONS:
    per-label bound lists as tuples / numpy arrays / with Python ints where integral, the ignore list as a tuple, and the manager's extra
    keys (max_matchable_radii, uuid_matching_first) that the filters swallow through **kwargs"""
    rep = rep or {}
    out = {}
    if cfg.get("targets") is not None:
        out["target_labels"] = [_label_enum(f, v) for f, v in cfg["targets"]]
    for js, kw in (("ignore", "ignore_attributes"), ("max_x", "max_x_position_list"), ("max_y", "max_y_position_list"),
                   ("max_dist", "max_distance_list"), ("min_dist", "min_distance_list"), ("min_pts", "min_point_numbers"),
                   ("conf", "confidence_threshold_list"), ("uuids", "target_uuids")):
        if cfg.get(js) is not None:
            out[kw] = list(cfg[js])
            if js in ("max_x", "max_y", "max_dist", "min_dist", "conf") and rep.get("bounds"):
                if rep["bounds"] == "tuple":
                    out[kw] = tuple(out[kw])
                elif rep["bounds"] == "ndarray":
                    import numpy as np

                    out[kw] = np.array(out[kw], dtype=float)
                elif rep["bounds"] == "int":
                    out[kw] = [int(v) if float(v).is_integer() else v for v in out[kw]]
            if js == "ignore" and rep.get("ignore") == "tuple":
                out[kw] = tuple(out[kw])
    if rep.get("extra"):
        out["max_matchable_radii"] = [2.5] * len(cfg.get("targets") or [1])
        out["uuid_matching_first"] = False
    return out


def object_facts(o, transforms):
    """Facts read through public getters (what the Coq model is fed)."""
    from perception_eval.common.schema import FrameID

    lab = o.semantic_label
    base = o.frame_id == FrameID.BASE_LINK
    pos = None
    if o.state.position is not None:
        if base:
            p = o.state.position
            pos = [float(p[0]), float(p[1]), float(o.get_distance_bev())]
        elif transforms is not None:
            p = transforms.transform((o.frame_id, FrameID.BASE_LINK), o.state.position)
            pos = [float(p[0]), float(p[1]), float(o.get_distance_bev(transforms))]
        else:
            # not ego-relative: the raw coordinates, which no criterion may look at
            p = o.state.position
            pos = [float(p[0]), float(p[1]), float((p[0] ** 2 + p[1] ** 2) ** 0.5)]
    return {
        "lid": label_id(lab.label), "is_fp": bool(lab.is_fp()), "is_unknown": bool(lab.is_unknown()),
        "name": lab.name, "attrs": list(lab.attributes), "conf": float(o.semantic_score), "uuid": o.uuid,
        "base": bool(base), "pos": pos, "pts": getattr(o, "pointcloud_num", None),
    }


def registry_fingerprint(transforms):
    """the registered transforms, by value (None when no registry is passed)"""
    if transforms is None:
        return None
    return sorted((str(k), m.matrix.tobytes(), tuple(float(v) for v in m.position), tuple(float(v) for v in m.rotation.elements))
                  for k, m in transforms.items())


def fingerprint(objs):
    out = []
    for o in objs:
        p = o.state.position
        q = o.state.orientation
        out.append((id(o), o.unix_time, o.frame_id, None if p is None else tuple(float(v) for v in p),
                    None if q is None else tuple(float(v) for v in q.elements), o.semantic_score, o.semantic_label.label,
                    o.semantic_label.name, tuple(o.semantic_label.attributes), getattr(o, "pointcloud_num", None), o.uuid))
    return out


# ------------------------------------------------------------------------------------------------
# Coq literals
# ------------------------------------------------------------------------------------------------
def obj_lit(i, f, key=None):
    pos = "None" if f["pos"] is None else f"(Some ({qlit(f['pos'][0])}, {qlit(f['pos'][1])}, {qlit(f['pos'][2])}))"
    return (f"(mkObj {i} {f['lid']} {slit(f['name'])} {llit([slit(a) for a in f['attrs']])} {qlit(f['conf'])} "
            f"{olit(f['uuid'], slit)} {blit(f['base'])} {pos} {olit(f['pts'], lambda z: zlit(z) + '%Z')} {i if key is None else key})")


def cfg_lit(cfg):
    from perception_eval.common.label import AutowareLabel  # noqa: F401  (label ids need the enums)

    t = None if cfg.get("targets") is None else [str(label_id(_label_enum(f, v))) for f, v in cfg["targets"]]
    ql = lambda k: olit(cfg.get(k), lambda l: llit([qlit(v) for v in l]))  # noqa: E731
    return ("(mkCfg " + olit(t, llit) + " " + olit(cfg.get("ignore"), lambda l: llit([slit(s) for s in l])) + " "
            + ql("max_x") + " " + ql("max_y") + " " + ql("max_dist") + " " + ql("min_dist") + " "
            + olit(cfg.get("min_pts"), lambda l: llit([zlit(v) + "%Z" for v in l])) + " " + ql("conf") + " "
            + olit(cfg.get("uuids"), lambda l: llit([slit(s) for s in l])) + ")")


def expected_lit(kept):
    if isinstance(kept, dict):
        return {"TypeError": "ErrType", "IndexError": "ErrIndex"}[kept["error"]]
    return "(Ok " + llit([str(i) for i in kept]) + ")"


HEADER = ("From Coq Require Import List Bool ZArith String QArith.\n"
          "From PE Require Import Base.CaseUtil Model.Filter.\n"
          "Import ListNotations.\nOpen Scope string_scope.\nOpen Scope Q_scope.\nOpen Scope nat_scope.\nOpen Scope bool_scope.\n")


# ------------------------------------------------------------------------------------------------
# the documented keep rule, re-stated independently of the Coq model (exact rationals)
# ------------------------------------------------------------------------------------------------
def cfg_well_formed(cfg):
    lists = [cfg.get(k) for k in ("max_x", "max_y", "max_dist", "min_dist", "min_pts", "conf")]
    if all(l is None for l in lists):
        return True
    t = cfg.get("targets")
    return bool(t) and all(l is None or len(l) == len(t) for l in lists)


def doc_keep(f, cfg, is_gt, tf_given):
    """documentation of filter_objects + the two relaxations (FP label, unknown estimates)."""
    F = Fraction
    if f["is_fp"]:
        return True
    targets = None if cfg.get("targets") is None else [label_id(_label_enum(a, b)) for a, b in cfg["targets"]]
    unknown_targeted = targets is not None and any(t in (0, 100) for t in targets)
    mean_mode = f["is_unknown"] and not is_gt and not unknown_targeted
    ego = f["pos"] if (f["pos"] is not None and (tf_given or f["base"])) else None
    if not mean_mode:
        if targets and f["lid"] not in targets:
            return False
        ign = cfg.get("ignore")
        if ign is not None and any((k in f["name"]) or (k in f["attrs"]) for k in ign):
            return False
    idx = targets.index(f["lid"]) if (targets and f["lid"] in targets) else None

    def bound(lst):
        if mean_mode:
            return None if not lst else sum(F(v) for v in lst) / len(lst)
        return F(lst[idx])

    c = cfg.get("conf")
    # documented: the confidence list "is only used when is_gt=False": it never decides on a ground truth
    # (C10_confidence_estimates_only; /repo 54ea74c repaired the code, which used to apply it to ground truth too)
    if c is not None and not is_gt and not (F(f["conf"]) > (F(0) if mean_mode else F(c[idx]))):
        return False
    if ego is not None:
        x, y, d = (F(v) for v in ego)
        for lst, val, lower in ((cfg.get("max_x"), abs(x), False), (cfg.get("max_y"), abs(y), False),
                                (cfg.get("max_dist"), d, False), (cfg.get("min_dist"), d, True)):
            if lst is None:
                continue
            b = bound(lst)
            if b is None or not ((val > b) if lower else (val < b)):
                return False
        if is_gt and cfg.get("min_pts") is not None and not (f["pts"] >= cfg["min_pts"][idx]):
            return False
    if is_gt and cfg.get("uuids") is not None and f["uuid"] not in cfg["uuids"]:
        return False
    return True


def is_subsequence(a, b):
    it = iter(b)
    return all(x in it for x in a)


# ------------------------------------------------------------------------------------------------
# generators
# ------------------------------------------------------------------------------------------------
EGO_POSES = [
    {"pos": [0.0, 0.0, 0.0], "quat": [1.0, 0.0, 0.0, 0.0]},
    {"pos": [100.0, -50.0, 0.0], "quat": [1.0, 0.0, 0.0, 0.0]},
    {"pos": [12.5, 40.25, 1.0], "quat": [0.0, 0.0, 0.0, 1.0]},                    # yaw = pi
    {"pos": [-300.0, 200.0, 0.0], "quat": [0.6, 0.0, 0.0, 0.8]},                  # rational unit quaternion
    {"pos": [1000.125, 2000.5, -3.0], "quat": [0.8, 0.0, 0.0, -0.6]},
    {"pos": [64.0, 64.0, 0.0], "quat": [0.28, 0.0, 0.0, 0.96]},
]
# ego poses with roll / pitch (rational unit quaternions); C10's own streams use EGO_POSES + EGO_POSES_TILTED (EGO_POSES itself is shared
# with other checks and stays as it is)
EGO_POSES_TILTED = [
    {"pos": [20.0, -7.5, 2.0], "quat": [0.5, 0.5, 0.5, 0.5]},
    {"pos": [-40.25, 12.0, 1.5], "quat": [0.8, 0.6, 0.0, 0.0]},                   # roll
    {"pos": [5.0, 9.5, -1.0], "quat": [0.8, 0.0, 0.6, 0.0]},                      # pitch
    {"pos": [300.0, -120.5, 4.0], "quat": [0.36, 0.48, 0.0, 0.8]},                # roll and yaw
]
ALL_POSES = EGO_POSES + EGO_POSES_TILTED
# the camera in the ego frame (CAM_FRONT -> BASE_LINK): optical axes (z forward, x right, y down), an exact signed permutation
CAM_POSE = {"pos": [1.5, 0.0, 1.25], "quat": [0.5, -0.5, 0.5, -0.5]}
TARGET_POOL = [("autoware", "car"), ("autoware", "bus"), ("autoware", "pedestrian"), ("autoware", "bicycle"),
               ("autoware", "unknown"), ("autoware", "motorbike")]
OBJ_LABELS = ["car", "car", "bus", "pedestrian", "bicycle", "unknown", "unknown", "false_positive", "truck", "motorbike"]
UUIDS = ["a", "b", "c", "d", "e"]


def lat(rng, lo, hi):
    return rng.randint(int(lo * 8), int(hi * 8)) / 8.0


def ego_to_cam(cam, p):
    """ego-frame point -> CAM_FRONT coordinates for the camera pose `cam` (inverse of CAM_FRONT -> BASE_LINK)"""
    from pyquaternion import Quaternion
    import numpy as np

    v = Quaternion(cam["quat"]).inverse.rotate(np.array(p, dtype=float) - np.array(cam["pos"], dtype=float))
    return [float(x) for x in v]


def gen_obj(rng, frame, ego, is_gt, family="autoware", cam=None):
    """An object placed at a lattice point of the EGO frame (mapped into the map frame by the pose; cam (optional): a 2D object that
    carries that point as its 3D position, expressed in the camera frame)."""
    if family == "autoware":
        lab = rng.choice(OBJ_LABELS)
    else:
        lab = rng.choice(["green", "red", "unknown", "false_positive", "traffic_light"])
    ex, ey = lat(rng, -24, 24), lat(rng, -12, 12)
    if rng.random() < 0.3:
        ex, ey = float(rng.choice([-10, -5, 5, 10, 0])), float(rng.choice([-5, 5, 0, 3, 4]))
    edge = rng.random()
    if edge < 0.04:
        ex, ey = 0.0, 0.0          # exactly at the ego: planar distance 0 (decides a min-distance bound of exactly 0)
    elif edge < 0.07:
        ex, ey = rng.choice([(0.0, ey), (ex, 0.0)])      # on an axis: |x| or |y| exactly 0
    d = {"family": family, "label": lab, "name": rng.choice(NAMES[lab]),
         "attrs": rng.sample(ATTRS, rng.choice([0, 0, 1, 2])),
         "conf": (1.0 if rng.random() < 0.8 else rng.randint(0, 64) / 64.0) if is_gt else (rng.randint(0, 64) / 64.0 if rng.random() < 0.94 else 0.0),
         "uuid": rng.choice(UUIDS + [None]) if is_gt else rng.choice([None, "a", "zz"]),
         "pts": (rng.choice([0, 1, 2, 3, 5, 10]) if rng.random() < 0.95 else None) if is_gt else rng.choice([None, 0, 7])}
    if frame == "cam":
        if cam is not None:
            d["pos"] = ego_to_cam(cam, (ex, ey, lat(rng, -1, 1)))
            d["ego_xy"] = [ex, ey]
            d["pts"] = None                  # a 2D object has no point count
        return d
    d["pos"] = ego_to_frame(frame, ego, (ex, ey, lat(rng, -1, 1)))
    d["ego_xy"] = [ex, ey]        # the ego-frame coordinates the object was generated at (independent of every getter)
    return d


def facts_vs_generator(specs, facts, frame, tf, who):
    """The ego-relative x / y / planar distance the facts carry (read through transforms.transform and get_distance_bev, the very calls
    the filter makes) must be the coordinates the objects were GENERATED at in the ego frame."""
    import math

    no_tf = tf is None or tf.get("empty")
    if (frame == "cam" and (no_tf or tf.get("cam") is None)) or (frame == "map" and no_tf):
        return None          # not ego-relative in these configurations (third branch of the filter)
    for i, (d, f) in enumerate(zip(specs, facts)):
        if d.get("ego_xy") is None or f["pos"] is None:
            continue
        if d.get("frame", frame) == "map" and no_tf:
            continue
        ex, ey = d["ego_xy"]
        want = [ex, ey, math.hypot(ex, ey)]
        for c, nm in enumerate(("x", "y", "planar distance")):
            if abs(f["pos"][c] - want[c]) > 1e-7 * (1.0 + abs(want[c])):
                return f"{who} {i}: ego-relative {nm} is {f['pos'][c]} but the object sits at ({ex}, {ey}) in the ego frame ({nm} {want[c]})"
    return None


def ego_to_frame(frame, ego, p):
    if frame == "base_link" or ego is None:
        return [float(v) for v in p]
    from pyquaternion import Quaternion
    import numpy as np

    q = Quaternion(ego["quat"])
    v = q.rotate(np.array(p, dtype=float)) + np.array(ego["pos"], dtype=float)
    return [float(x) for x in v]


def gen_cfg(rng, objs_facts, stream):
    """objs_facts: facts of the generated objects, so that bounds can be put exactly on observed values."""
    n = rng.choice([1, 2, 2, 3, 3, 4])
    targets = rng.sample(TARGET_POOL, n)
    if stream == "traffic":
        targets = rng.sample([("traffic_light", "green"), ("traffic_light", "red"), ("traffic_light", "unknown"),
                              ("traffic_light", "traffic_light")], rng.choice([1, 2, 3]))
        n = len(targets)
    cfg = {"targets": targets}
    xs = sorted({abs(f["pos"][0]) for f in objs_facts if f["pos"]}) or [5.0]
    ys = sorted({abs(f["pos"][1]) for f in objs_facts if f["pos"]}) or [5.0]
    ds = sorted({f["pos"][2] for f in objs_facts if f["pos"]}) or [5.0]
    # thresholds include 1.0 = the score of ground truth, and values above it
    cs = sorted({f["conf"] for f in objs_facts} | {1.0}) or [0.5]
    # unknown-labelled objects may be judged against np.mean(bounds): keep the bounds on the k/8 lattice then, so that
    # the float mean and the exact rational mean order every coordinate identically (no float noise in model / oracle)
    if any(f["is_unknown"] for f in objs_facts):
        xs = [v for v in xs if v * 8 == int(v * 8)] or [5.0]
        ys = [v for v in ys if v * 8 == int(v * 8)] or [5.0]
        ds = [v for v in ds if v * 8 == int(v * 8)] or [5.0]

    def pick(vals, lo, hi):
        r = rng.random()
        if r < 0.45:
            return rng.choice(vals)            # exactly on an observed value
        if r < 0.6:
            return rng.choice(vals) + rng.choice([-0.125, 0.125])
        return lat(rng, lo, hi)

    kind = rng.choice(["xy", "xy", "dist", "dist", "both", "none", "x", "maxd"])
    if kind in ("xy", "both", "x"):
        cfg["max_x"] = [pick(xs, 0, 30) for _ in range(n)]
    if kind in ("xy", "both"):
        cfg["max_y"] = [pick(ys, 0, 15) for _ in range(n)]
    if kind in ("dist", "both", "maxd"):
        cfg["max_dist"] = [pick(ds, 5, 30) for _ in range(n)]
    if kind in ("dist", "both"):
        cfg["min_dist"] = [pick(ds, 0, 8) for _ in range(n)]
    if rng.random() < 0.5:
        cfg["conf"] = [rng.choice(cs) if rng.random() < 0.5 else rng.choice([rng.randint(0, 64) / 64.0, rng.randint(0, 64) / 64.0, 1.0, 1.5])
                       for _ in range(n)]
    if rng.random() < 0.5:
        cfg["min_pts"] = [rng.choice([0, 1, 2, 3, 5, 6]) for _ in range(n)]
    if rng.random() < 0.4:
        cfg["uuids"] = rng.sample(UUIDS, rng.choice([0, 1, 2, 3, 5]))
    if rng.random() < 0.4:
        cfg["ignore"] = rng.choice([[], ["cycle_state.without_rider"], ["vehicle_state.parked", "sitting"], ["child"],
                                    ["vehicle."], [""], ["occlusion_state.most", "debris"], ["state"]])
    if stream in ("typical", "boundary", "traffic") and rng.random() < 0.16:
        zero_bound(rng, cfg, n, objs_facts)
    if stream == "boundary":
        r = rng.random()
        if r < 0.08:
            cfg["targets"] = []                # falsy target list: label test skipped
            for k in ("max_x", "max_y", "max_dist", "min_dist", "min_pts", "conf"):
                cfg.pop(k, None)
        elif r < 0.14:
            cfg["targets"] = None
            for k in ("max_x", "max_y", "max_dist", "min_dist", "min_pts", "conf"):
                cfg.pop(k, None)
    if stream == "malformed":
        r = rng.random()
        if r < 0.3:
            cfg["targets"] = None
        elif r < 0.45:
            cfg["targets"] = []
            for k in ("max_x", "max_y", "max_dist", "min_dist", "min_pts", "conf"):
                if k in cfg:
                    cfg[k] = []
        elif r < 0.8:
            ks = [k for k in ("max_x", "max_y", "max_dist", "min_dist", "min_pts", "conf") if k in cfg]
            if ks:
                k = rng.choice(ks)
                cfg[k] = cfg[k][:rng.randint(0, len(cfg[k]) - 1)] if len(cfg[k]) > 1 or rng.random() < 0.5 else cfg[k]
        # else: only a ground truth without point count (generated by gen_obj) makes it malformed
    return cfg


def zero_bound(rng, cfg, n, objs_facts=()):
    """NUMERIC EDGE: one per-label bound of exactly 0 (falsy but valid: |x| < 0 / d < 0 hold for nothing, d > 0 for everything but the ego
    position itself, score > 0 for everything but a score of exactly 0).  In half of the cases every OTHER bound of that label becomes
    permissive, so that the zero alone decides about the objects of that label."""
    keys = [k for k in ("max_x", "max_y", "max_dist", "min_dist", "conf") if cfg.get(k)]
    if not keys:
        k = rng.choice(["max_x", "max_dist", "min_dist", "conf"])
        cfg[k] = [rng.choice([5.0, 10.0, 0.5]) for _ in range(n)]
        keys = [k]
    k = rng.choice(keys)
    j = rng.randrange(n)
    # prefer the label of an object that sits exactly on the zero (at the ego position / with a score of exactly 0): the only objects for
    # which `> 0` and "no bound" differ
    lids = [label_id(_label_enum(a, b)) for a, b in cfg["targets"]]
    on_zero = [lids.index(f["lid"]) for f in objs_facts if f["lid"] in lids
               and ((k == "min_dist" and f["pos"] is not None and f["pos"][2] == 0) or (k == "conf" and f["conf"] == 0))]
    sharp = bool(on_zero) and k in ("min_dist", "conf")
    if sharp:
        j = rng.choice(on_zero)
        cfg.pop("uuids", None)
        cfg.pop("ignore", None)
    cfg[k][j] = 0.0
    cfg["zero_bound"] = [k, j]
    if sharp or rng.random() < 0.5:
        for k2, v in (("max_x", 100.0), ("max_y", 100.0), ("max_dist", 100.0), ("min_dist", 0.0), ("conf", 0.0)):
            if k2 != k and cfg.get(k2):
                cfg[k2][j] = v
        if cfg.get("min_pts"):
            cfg["min_pts"][j] = 0


def widen(rng, cfg):
    w = dict(cfg)
    for k, sign in (("max_x", 1), ("max_y", 1), ("max_dist", 1), ("min_dist", -1), ("conf", -1), ("min_pts", -1)):
        if cfg.get(k) is None:
            continue
        r = rng.random()
        if r < 0.15:
            w[k] = None
        elif k == "min_pts":
            w[k] = [v - rng.choice([0, 0, 1, 3]) for v in cfg[k]]
        elif k == "conf":
            w[k] = [v - rng.choice([0, 0, 1, 8]) / 64.0 for v in cfg[k]]
        else:
            w[k] = [v + sign * rng.choice([0, 0, 0.125, 1.0, 7.5]) for v in cfg[k]]
    return w


# ------------------------------------------------------------------------------------------------
class FilterObjectsCorr(Corr):
    name = "filter_objects"
    header = HEADER
    requires = ["Model/Filter.vo", "Base/CaseUtil.vo"]
    shard = 120

    def cases(self, tier, rng):
        out = list(REGRESSION_OBJECTS)
        n = 700 if tier == "quick" else 8000
        for i in range(n):
            r = rng.random()
            stream = "typical" if r < 0.5 else "boundary" if r < 0.82 else "malformed" if r < 0.94 else "traffic"
            fr = rng.random()
            if fr < 0.4:
                frame, ego, tf = "base_link", None, rng.choice([None, None, {"empty": True}, EGO_POSES[3]])
            elif fr < 0.85:
                frame, ego = "map", rng.choice(ALL_POSES)         # yaw-only and tilted (roll / pitch) ego poses
                tf = ego if rng.random() < 0.85 else None        # map frame without transforms: third branch
            else:
                frame, ego, tf = "cam", None, rng.choice([None, EGO_POSES[1], dict(EGO_POSES[1], cam=CAM_POSE), dict(EGO_POSES[1], cam=CAM_POSE)])
            is_gt = rng.random() < 0.5
            nobj = rng.choice([0, 1, 2, 3, 5, 8, 12]) if stream != "typical" else rng.randint(3, 14)
            fam = "traffic_light" if stream == "traffic" else "autoware"
            cam = tf.get("cam") if (frame == "cam" and tf) else None
            objs = [gen_obj(rng, frame, ego, is_gt, fam, cam=cam if rng.random() < 0.8 else None) for _ in range(nobj)]
            if frame == "map" and tf is not None and rng.random() < 0.25:
                # a list of MIXED frame: some of the objects are given in the ego frame, at the same kind of lattice points
                for k, d in enumerate(objs):
                    if rng.random() < 0.5:
                        objs[k] = dict(gen_obj(rng, "base_link", None, is_gt, fam), frame="base_link")
            if rng.random() < 0.3:
                prep = rng.choice(["list", "ndarray", "int"])
                for d in objs:
                    if d.get("pos") is not None and rng.random() < 0.7:
                        d["pos_rep"] = prep
            if is_gt and stream != "malformed":
                for d in objs:
                    if d.get("pts") is None and frame != "cam":
                        d["pts"] = 4
            transforms = build_transforms(tf)
            facts = [object_facts(build_object(d, frame), transforms) for d in objs]
            ego_facts = [f for f in facts if f["pos"] is not None and (f["base"] or tf is not None)]
            cfg = gen_cfg(rng, ego_facts, stream)
            if cam is not None and is_gt:
                cfg.pop("min_pts", None)          # 2D objects have no point count: a point-count bound is not a configuration for them
            case = {"frame": frame, "tf": tf, "is_gt": is_gt, "objs": objs, "cfg": cfg, "stream": stream}
            if frame == "map" and tf is not None and rng.random() < 0.4:
                # ACCUMULATION: ONE registry instance serves three frames of a moving ego -- the SAME objects are first filtered under two
                # other ego poses (same parameters), the entry is updated in place each time; only the pose of the last call may count
                case["seq"] = other_poses(rng, ego)
            if cfg_well_formed(cfg):
                case["wide"] = widen(rng, cfg)
            case["rep"] = {"bounds": rng.choice(["tuple", "ndarray", "int", None, None, None]), "ignore": rng.choice(["tuple", None]), "extra": rng.random() < 0.15}
            out.append(case)
        return out

    def run_impl(self, case):
        from perception_eval.evaluation.matching.objects_filter import filter_objects

        transforms = build_transforms(case["tf"])
        objs = [build_object(d, case["frame"]) for d in case["objs"]]
        facts = [object_facts(o, build_transforms(case["tf"], warmed=False)) for o in objs]     # facts from a FRESH registry
        kw = build_cfg_kwargs(case["cfg"], case.get("rep"))
        kw_before = repr(kw)
        before = fingerprint(objs)
        if case.get("seq"):
            for pose in case["seq"]:
                set_ego_pose(transforms, pose)
                try:
                    filter_objects(objs, case["is_gt"], transforms=transforms, **kw)
                except (TypeError, IndexError):
                    pass
            set_ego_pose(transforms, case["tf"])
        reg_before = registry_fingerprint(transforms)
        ids_before = [id(o) for o in objs]
        index = {id(o): i for i, o in enumerate(objs)}
        obs = {"facts": facts}
        try:
            kept = filter_objects(objs, case["is_gt"], transforms=transforms, **kw)
        except (TypeError, IndexError) as e:
            obs["kept"] = {"error": type(e).__name__}
            obs["mutated"] = fingerprint(objs) != before
            return obs
        obs["kept"] = [index.get(id(o), -1) for o in kept]
        obs["again"] = [index.get(id(o), -1) for o in filter_objects(kept, case["is_gt"], transforms=transforms, **kw)]
        obs["mutated"] = (fingerprint(objs) != before or [id(o) for o in objs] != ids_before or repr(kw) != kw_before
                          or kept is objs)
        obs["registry_mutated"] = registry_fingerprint(transforms) != reg_before
        if case.get("wide") is not None:
            try:
                wk = filter_objects(objs, case["is_gt"], transforms=transforms, **build_cfg_kwargs(case["wide"], case.get("rep")))
                obs["wide_kept"] = [index.get(id(o), -1) for o in wk]
            except (TypeError, IndexError) as e:
                obs["wide_kept"] = {"error": type(e).__name__}
        return obs

    def coq_term(self, case, obs):
        objs = llit([obj_lit(i, f) for i, f in enumerate(obs["facts"])])
        flags = " && ".join(f"check_label_flags {obj_lit(i, f)} {blit(f['is_fp'])} {blit(f['is_unknown'])}"
                            for i, f in enumerate(obs["facts"])) or "true"
        t = (f"(check_filter_objects {cfg_lit(case['cfg'])} {blit(case['tf'] is not None)} {blit(case['is_gt'])} {objs} "
             f"{expected_lit(obs['kept'])} && ({flags})")
        if case.get("wide") is not None and "wide_kept" in obs:
            t += (f" && check_filter_objects {cfg_lit(case['wide'])} {blit(case['tf'] is not None)} {blit(case['is_gt'])} {objs} "
                  f"{expected_lit(obs['wide_kept'])}")
        return t + ")"

    def coq_debug(self, case, obs):
        objs = llit([obj_lit(i, f) for i, f in enumerate(obs["facts"])])
        return f"map_res ids (filter_objects {cfg_lit(case['cfg'])} {blit(case['tf'] is not None)} {blit(case['is_gt'])} {objs})"

    def oracle(self, case, obs):
        if obs.get("mutated"):
            return "filter_objects mutated its input (objects, list or parameter lists) or returned the input list itself"
        if obs.get("registry_mutated"):
            return "filter_objects changed the TransformDict it was given"
        m = facts_vs_generator(case["objs"], obs["facts"], case["frame"], case["tf"], "object")
        if m:
            return m
        kept = obs["kept"]
        wf = cfg_well_formed(case["cfg"]) and not (
            case["is_gt"] and case["cfg"].get("min_pts") is not None and any(f["pts"] is None for f in obs["facts"]))
        if isinstance(kept, dict):
            return f"well-formed parameters raise {kept['error']}" if wf else None
        n = len(obs["facts"])
        if any(i < 0 for i in kept) or not is_subsequence(kept, list(range(n))) or len(set(kept)) != len(kept):
            return f"output {kept} is not an order-preserving sub-list of the {n} input objects"
        if obs["again"] != kept:
            return f"not idempotent: first pass keeps {kept}, filtering that again keeps {obs['again']}"
        if not wf:
            return None
        tf_given = case["tf"] is not None
        want = [i for i, f in enumerate(obs["facts"]) if doc_keep(f, case["cfg"], case["is_gt"], tf_given)]
        if want != kept:
            extra = [i for i in kept if i not in want]
            miss = [i for i in want if i not in kept]
            if case["is_gt"] and case["cfg"].get("conf") is not None:
                by_conf = [i for i in miss if not doc_keep(obs["facts"][i], case["cfg"], False, tf_given)]
                if by_conf:
                    return (f"ground truth {by_conf[0]} is dropped by the confidence threshold list {case['cfg']['conf']} (documented: used for "
                            f"estimates only): facts={obs['facts'][by_conf[0]]}")
            i = (extra + miss)[0]
            return (f"kept {kept} but the documented criteria select {want}: object {i} "
                    f"({'kept although it violates' if i in extra else 'dropped although it satisfies'} them) facts={obs['facts'][i]}")
        wk = obs.get("wide_kept")
        if wk is not None:
            if isinstance(wk, dict):
                return f"widened well-formed parameters raise {wk['error']}"
            lost = [i for i in kept if i not in wk]
            if lost:
                return f"widening the bounds removed objects {lost}: {case['cfg']} -> {case['wide']}"
        return None

    def nontrivial(self, case, obs):
        k = obs.get("kept")
        if k is None:
            return False
        return isinstance(k, dict) or (len(obs["facts"]) >= 2 and 0 < len(k) < len(obs["facts"]))

    def describe(self, case, obs):
        return {"case": {k: case[k] for k in ("frame", "tf", "is_gt", "cfg", "stream")}, "n_objects": len(case["objs"]),
                "observed": {k: obs.get(k) for k in ("kept", "again", "wide_kept", "mutated")}}

    def distribution(self, cases, obs):
        d = {"frames": {}, "streams": {}, "errors": {}, "n_objects": 0, "n_kept": 0, "on_bound_objects": 0,
             "mean_mode_objects": 0, "fp_label_objects": 0, "no_position_objects": 0, "with_wide_cfg": 0,
             "tilted_ego_pose_cases": 0, "objects_2d_with_3d_position": 0, "mixed_frame_lists": 0, "position_representations": {},
             "bound_list_representations": {}, "ignore_list_as_tuple": 0, "extra_manager_keys_passed": 0,
             "cases_with_a_bound_of_exactly_0": {}, "objects_decided_by_a_bound_of_exactly_0": {}, "objects_at_the_ego_position": 0,
             "estimates_with_confidence_0": 0, "one_registry_served_two_other_ego_poses_first": 0}
        for c, o in zip(cases, obs):
            if "facts" not in o:
                continue
            d["one_registry_served_two_other_ego_poses_first"] += bool(c.get("seq"))
            d["objects_at_the_ego_position"] += sum(1 for x in c["objs"] if x.get("ego_xy") == [0.0, 0.0])
            d["estimates_with_confidence_0"] += sum(1 for x in c["objs"] if not c["is_gt"] and x["conf"] == 0.0)
            for k in ("max_x", "max_y", "max_dist", "min_dist", "conf"):
                if c["cfg"].get(k) and any(v == 0 for v in c["cfg"][k]) and cfg_well_formed(c["cfg"]) and isinstance(o["kept"], list):
                    d["cases_with_a_bound_of_exactly_0"][k] = d["cases_with_a_bound_of_exactly_0"].get(k, 0) + 1
                    lifted = dict(c["cfg"], **{k: [v if v != 0 else (-1.0 if k in ("min_dist", "conf") else 1e9) for v in c["cfg"][k]]})
                    try:
                        n_dec = sum(1 for f in o["facts"] if doc_keep(f, c["cfg"], c["is_gt"], c["tf"] is not None)
                                    != doc_keep(f, lifted, c["is_gt"], c["tf"] is not None))
                    except Exception:
                        n_dec = 0
                    d["objects_decided_by_a_bound_of_exactly_0"][k] = d["objects_decided_by_a_bound_of_exactly_0"].get(k, 0) + n_dec
            key = c["frame"] + ("+tf" if c["tf"] is not None else "") + ("+cam" if (c["tf"] or {}).get("cam") else "")
            d["tilted_ego_pose_cases"] += c["frame"] == "map" and c["tf"] is not None and any(v != 0 for v in c["tf"]["quat"][1:3])
            d["objects_2d_with_3d_position"] += sum(1 for x in c["objs"] if c["frame"] == "cam" and x.get("pos") is not None)
            d["mixed_frame_lists"] += len({x.get("frame", c["frame"]) for x in c["objs"]}) > 1
            for x in c["objs"]:
                if x.get("pos_rep"):
                    d["position_representations"][x["pos_rep"]] = d["position_representations"].get(x["pos_rep"], 0) + 1
            rp = c.get("rep") or {}
            if rp.get("bounds"):
                d["bound_list_representations"][rp["bounds"]] = d["bound_list_representations"].get(rp["bounds"], 0) + 1
            d["ignore_list_as_tuple"] += rp.get("ignore") == "tuple" and c["cfg"].get("ignore") is not None
            d["extra_manager_keys_passed"] += bool(rp.get("extra"))
            d["frames"][key] = d["frames"].get(key, 0) + 1
            d["streams"][c.get("stream", "regression")] = d["streams"].get(c.get("stream", "regression"), 0) + 1
            if isinstance(o["kept"], dict):
                d["errors"][o["kept"]["error"]] = d["errors"].get(o["kept"]["error"], 0) + 1
                continue
            d["n_objects"] += len(o["facts"])
            d["n_kept"] += len(o["kept"])
            d["with_wide_cfg"] += 1 if c.get("wide") is not None else 0
            cfg = c["cfg"]
            tl = None if cfg.get("targets") is None else [label_id(_label_enum(a, b)) for a, b in cfg["targets"]]
            for f in o["facts"]:
                d["fp_label_objects"] += f["is_fp"]
                if f["pos"] is None or not (f["base"] or c["tf"] is not None):
                    d["no_position_objects"] += 1
                elif any(cfg.get(k) and v in cfg[k] for k, v in (("max_x", abs(f["pos"][0])), ("max_y", abs(f["pos"][1])),
                                                                   ("max_dist", f["pos"][2]), ("min_dist", f["pos"][2]))):
                    d["on_bound_objects"] += 1
                if f["is_unknown"] and not c["is_gt"] and not (tl and any(t in (0, 100) for t in tl)):
                    d["mean_mode_objects"] += 1
        return d


class FilterResultsCorr(Corr):
    name = "filter_object_results"
    header = HEADER
    requires = ["Model/Filter.vo", "Base/CaseUtil.vo"]
    shard = 80

    def cases(self, tier, rng):
        out = list(REGRESSION_RESULTS)
        n = 350 if tier == "quick" else 4000
        for i in range(n):
            r = rng.random()
            stream = "typical" if r < 0.55 else "boundary" if r < 0.9 else "malformed"
            if rng.random() < 0.4:
                frame, ego, tf = "base_link", None, rng.choice([None, {"empty": True}])
            else:
                frame, ego = "map", rng.choice(ALL_POSES)
                tf = ego
            ne = rng.choice([0, 1, 2, 4, 6, 9])
            ng = rng.choice([0, 1, 2, 4, 6, 9])
            ests = [gen_obj(rng, frame, ego, False) for _ in range(ne)]
            gts = [gen_obj(rng, frame, ego, True) for _ in range(ng)]
            if stream != "malformed":
                for d in gts:
                    if d.get("pts") is None:
                        d["pts"] = 4
            gi = list(range(ng))
            rng.shuffle(gi)
            pairs = []
            for e in range(ne):
                if gi and rng.random() < 0.7:
                    g = gi.pop()
                    if rng.random() < 0.5:      # put the estimate next to its ground truth
                        ests[e]["pos"] = [gts[g]["pos"][0] + rng.choice([0.0, 0.125, -0.25]), gts[g]["pos"][1], gts[g]["pos"][2]]
                        # (moved in the coordinates of the objects' frame: the generated ego coordinates are known only for base_link)
                        ests[e]["ego_xy"] = ests[e]["pos"][:2] if frame == "base_link" else None
                    pairs.append([e, g])
                else:
                    pairs.append([e, None])
            rng.shuffle(pairs)
            if rng.random() < 0.25:
                # ORDER: every result WITHOUT a ground truth is listed before the first result with one
                pairs.sort(key=lambda p: p[1] is not None)
            transforms = build_transforms(tf)
            facts = [object_facts(build_object(d, frame), transforms) for d in ests + gts]
            cfg = gen_cfg(rng, [f for f in facts if f["pos"] is not None], stream)
            case = {"frame": frame, "tf": tf, "ests": ests, "gts": gts, "pairs": pairs, "cfg": cfg, "stream": stream}
            if frame == "map" and rng.random() < 0.4:
                case["seq"] = other_poses(rng, ego)        # one registry, three ego poses in turn (see FilterObjectsCorr)
            if cfg_well_formed(cfg):
                case["wide"] = widen(rng, cfg)        # the same results under widened bounds: nothing kept may be lost
            case["rep"] = {"bounds": rng.choice(["tuple", "ndarray", "int", None, None, None]), "ignore": rng.choice(["tuple", None]), "extra": rng.random() < 0.15}
            out.append(case)
        return out

    def run_impl(self, case):
        from perception_eval.evaluation import DynamicObjectWithPerceptionResult
        from perception_eval.evaluation.matching.objects_filter import filter_object_results

        transforms = build_transforms(case["tf"])
        ests = [build_object(d, case["frame"]) for d in case["ests"]]
        gts = [build_object(d, case["frame"]) for d in case["gts"]]
        ctor_tf = transforms if transforms is not None else build_transforms({"empty": True})
        results = [DynamicObjectWithPerceptionResult(ests[e], None if g is None else gts[g], transforms=ctor_tf) for e, g in case["pairs"]]
        kw = build_cfg_kwargs(case["cfg"], case.get("rep"))
        kw_before = repr(kw)
        reg_before = registry_fingerprint(transforms)
        before = fingerprint(ests + gts)
        pairs_before = [(id(r.estimated_object), id(r.ground_truth_object)) for r in results]
        index = {id(r): i for i, r in enumerate(results)}
        fresh = build_transforms(case["tf"], warmed=False)
        obs = {"est_facts": [object_facts(o, fresh) for o in ests], "gt_facts": [object_facts(o, fresh) for o in gts]}
        if case.get("seq"):
            for pose in case["seq"]:
                set_ego_pose(transforms, pose)
                try:
                    filter_object_results(results, transforms=transforms, **kw)
                except (TypeError, IndexError):
                    pass
            set_ego_pose(transforms, case["tf"])
            reg_before = registry_fingerprint(transforms)
        try:
            kept = filter_object_results(results, transforms=transforms, **kw)
        except (TypeError, IndexError) as e:
            obs["kept"] = {"error": type(e).__name__}
            obs["mutated"] = fingerprint(ests + gts) != before
            return obs
        obs["kept"] = [index.get(id(r), -1) for r in kept]
        obs["again"] = [index.get(id(r), -1) for r in filter_object_results(kept, transforms=transforms, **kw)]
        obs["mutated"] = (fingerprint(ests + gts) != before or kept is results or repr(kw) != kw_before
                          or [(id(r.estimated_object), id(r.ground_truth_object)) for r in results] != pairs_before)
        obs["registry_mutated"] = registry_fingerprint(transforms) != reg_before
        if case.get("wide") is not None:
            try:
                wk = filter_object_results(results, transforms=transforms, **build_cfg_kwargs(case["wide"], case.get("rep")))
                obs["wide_kept"] = [index.get(id(r), -1) for r in wk]
            except (TypeError, IndexError) as e:
                obs["wide_kept"] = {"error": type(e).__name__}
        return obs

    def _res_list(self, case, obs):
        items = []
        for k, (e, g) in enumerate(case["pairs"]):
            # a result is identified by its position k in the caller's list
            est = obj_lit(k, obs["est_facts"][e])
            gt = "None" if g is None else f"(Some {obj_lit(g, obs['gt_facts'][g])})"
            items.append(f"(mkRes {est} {gt} false None)")
        return llit(items)

    def coq_term(self, case, obs):
        t = (f"check_filter_results {cfg_lit(case['cfg'])} {blit(case['tf'] is not None)} {self._res_list(case, obs)} "
             f"{expected_lit(obs['kept'])}")
        if case.get("wide") is not None and "wide_kept" in obs:
            t = (f"({t} && check_filter_results {cfg_lit(case['wide'])} {blit(case['tf'] is not None)} {self._res_list(case, obs)} "
                 f"{expected_lit(obs['wide_kept'])})")
        return t

    def coq_debug(self, case, obs):
        return (f"map_res (map (fun r => o_id (r_est r))) (filter_object_results {cfg_lit(case['cfg'])} "
                f"{blit(case['tf'] is not None)} {self._res_list(case, obs)})")

    def oracle(self, case, obs):
        if obs.get("mutated"):
            return "filter_object_results mutated its input (objects, results, parameter lists) or returned the input list itself"
        if obs.get("registry_mutated"):
            return "filter_object_results changed the TransformDict it was given"
        m = (facts_vs_generator(case["ests"], obs["est_facts"], case["frame"], case["tf"], "estimate")
             or facts_vs_generator(case["gts"], obs["gt_facts"], case["frame"], case["tf"], "ground truth"))
        if m:
            return m
        kept = obs["kept"]
        cfg = case["cfg"]
        wf = cfg_well_formed(cfg) and not (cfg.get("min_pts") is not None and any(f["pts"] is None for f in obs["gt_facts"]))
        if isinstance(kept, dict):
            return f"well-formed parameters raise {kept['error']}" if wf else None
        n = len(case["pairs"])
        if any(i < 0 for i in kept) or not is_subsequence(kept, list(range(n))) or len(set(kept)) != len(kept):
            return f"output {kept} is not an order-preserving sub-list of the {n} input results"
        if obs["again"] != kept:
            return f"not idempotent: first pass keeps {kept}, filtering that again keeps {obs['again']}"
        if not wf:
            return None
        tf_given = case["tf"] is not None
        # the estimate is judged on labels, range and confidence; its ground truth additionally on ignored
        # attributes, point count and uuid but not on confidence; no ground truth + targeted uuids = removed
        est_cfg = {k: v for k, v in cfg.items() if k not in ("ignore", "min_pts", "uuids")}
        gt_cfg = {k: v for k, v in cfg.items() if k != "conf"}
        want = []
        for k, (e, g) in enumerate(case["pairs"]):
            ok = doc_keep(obs["est_facts"][e], est_cfg, False, tf_given)
            if g is not None:
                ok = ok and doc_keep(obs["gt_facts"][g], gt_cfg, True, tf_given)
            elif cfg.get("uuids"):
                ok = False
            if ok:
                want.append(k)
        if want != kept:
            diff = [k for k in range(n) if (k in want) != (k in kept)]
            k = diff[0]
            e, g = case["pairs"][k]
            if k in want and g is not None and cfg.get("conf") is not None and not doc_keep(obs["gt_facts"][g], cfg, False, tf_given):
                return (f"result {k} is dropped because its ground truth {g} does not exceed the confidence threshold list {cfg['conf']} "
                        f"(documented: confidence is judged on the estimate only): gt={obs['gt_facts'][g]}")
            return (f"kept results {kept} but the documented criteria select {want}: result {k} (estimate {e}, ground truth {g}) "
                    f"est={obs['est_facts'][e]} gt={None if g is None else obs['gt_facts'][g]}")
        wk = obs.get("wide_kept")
        if wk is not None:
            if isinstance(wk, dict):
                return f"widened well-formed parameters raise {wk['error']}"
            lost = [i for i in kept if i not in wk]
            if lost:
                return f"widening the bounds removed results {lost}: {case['cfg']} -> {case['wide']}"
        return None

    def nontrivial(self, case, obs):
        k = obs.get("kept")
        if k is None:
            return False
        return isinstance(k, dict) or (len(case["pairs"]) >= 2 and 0 < len(k) < len(case["pairs"]))

    def describe(self, case, obs):
        return {"case": {k: case[k] for k in ("frame", "tf", "cfg", "pairs", "stream")},
                "observed": {k: obs.get(k) for k in ("kept", "again", "mutated")}}

    def distribution(self, cases, obs):
        d = {"frames": {}, "errors": {}, "results": 0, "kept": 0, "with_gt": 0, "dropped_for_gt_only": 0, "gtless_dropped_by_uuid": 0,
             "with_wide_cfg": 0, "kept_more_under_wide_cfg": 0, "tilted_ego_pose_cases": 0, "other_parameter_representations": 0,
             "every_gtless_result_listed_before_the_first_result_with_gt": 0, "one_registry_served_two_other_ego_poses_first": 0,
             "cases_with_a_bound_of_exactly_0": 0}
        for c, o in zip(cases, obs):
            if "est_facts" not in o:
                continue
            gl = [g is None for _, g in c["pairs"]]
            d["every_gtless_result_listed_before_the_first_result_with_gt"] += any(gl) and not all(gl) and gl == sorted(gl, reverse=True)
            d["one_registry_served_two_other_ego_poses_first"] += bool(c.get("seq"))
            d["cases_with_a_bound_of_exactly_0"] += any(c["cfg"].get(k) and any(v == 0 for v in c["cfg"][k]) for k in ("max_x", "max_y", "max_dist", "min_dist", "conf"))
            d["with_wide_cfg"] += isinstance(o.get("wide_kept"), list)
            d["kept_more_under_wide_cfg"] += isinstance(o.get("wide_kept"), list) and isinstance(o.get("kept"), list) and len(o["wide_kept"]) > len(o["kept"])
            d["tilted_ego_pose_cases"] += c["tf"] is not None and not c["tf"].get("empty") and any(v != 0 for v in c["tf"]["quat"][1:3])
            d["other_parameter_representations"] += bool(c.get("rep") and (c["rep"].get("bounds") or c["rep"].get("ignore")))
            key = c["frame"] + ("+tf" if c["tf"] is not None else "")
            d["frames"][key] = d["frames"].get(key, 0) + 1
            if isinstance(o["kept"], dict):
                d["errors"][o["kept"]["error"]] = d["errors"].get(o["kept"]["error"], 0) + 1
                continue
            d["results"] += len(c["pairs"])
            d["kept"] += len(o["kept"])
            if not cfg_well_formed(c["cfg"]):
                continue
            est_cfg = {k: v for k, v in c["cfg"].items() if k not in ("ignore", "min_pts", "uuids")}
            for k, (e, g) in enumerate(c["pairs"]):
                d["with_gt"] += g is not None
                try:
                    eo = doc_keep(o["est_facts"][e], est_cfg, False, c["tf"] is not None)
                except Exception:
                    continue
                if eo and k not in o["kept"]:
                    d["dropped_for_gt_only" if g is not None else "gtless_dropped_by_uuid"] += 1
        return d


# ------------------------------------------------------------------------------------------------
# the second observation point: objects reaching matching inside PerceptionEvaluationManager._filter_objects
# ------------------------------------------------------------------------------------------------
MGR_TARGETS = ["car", "bicycle", "pedestrian", "motorbike"]      # = manager_common.TARGETS


def mgr_cfg_json(over):
    """evaluation-config overrides of the manager -> the JSON filter configuration of this module (what the documentation of the config
    promises: a scalar is the bound of every target label, a list gives one bound per label)"""
    n = len(MGR_TARGETS)

    def per_label(v):
        return None if v is None else (list(v) if isinstance(v, (list, tuple)) else [v] * n)

    cfg = {"targets": [("autoware", t) for t in MGR_TARGETS]}
    for js, key in (("max_x", "max_x_position"), ("max_y", "max_y_position"), ("max_dist", "max_distance"), ("min_dist", "min_distance"),
                    ("min_pts", "min_point_numbers"), ("conf", "confidence_threshold")):
        if over.get(key) is not None:
            cfg[js] = per_label(over[key])
    if over.get("target_uuids") is not None:
        cfg["uuids"] = list(over["target_uuids"])
    if over.get("ignore_attributes") is not None:
        cfg["ignore"] = list(over["ignore_attributes"])
    return cfg


class ManagerCorr(Corr):
    """add_frame_result on a real manager whose OWN filter configuration binds (range by x/y or by distance, point counts, confidence, ignored
    attributes, target uuids), under a critical filter that removes nothing: the ground truths and the estimates that reach matching."""
    name = "manager_filter"
    header = HEADER
    requires = ["Model/Filter.vo", "Base/CaseUtil.vo"]
    shard = 60
    parallel_min = 8

    def cases(self, tier, rng):
        out = []
        n = 48 if tier == "quick" else 500
        for i in range(n):
            if i % 3 == 0:
                frame, ego = "base_link", None
                tf = rng.choice([{"empty": True}, EGO_POSES[3]])
            else:
                frame, ego = "map", rng.choice(ALL_POSES)
                tf = ego
            gts = [gen_obj(rng, frame, ego, True) for _ in range(rng.choice([0, 1, 3, 5, 8]))]
            ests = [gen_obj(rng, frame, ego, False) for _ in range(rng.choice([0, 1, 3, 5, 8]))]
            for d in gts:
                if d.get("pts") is None:
                    d["pts"] = 4
            for k, d in enumerate(ests):          # half of the estimates next to a ground truth, so that matching pairs them
                if gts and rng.random() < 0.5:
                    g = rng.choice(gts)
                    q = ego_to_frame(frame, ego, (g["ego_xy"][0] + rng.choice([0.0, 0.125, -0.25]), g["ego_xy"][1], 0.0))
                    d["pos"], d["ego_xy"] = [q[0], q[1], g["pos"][2]], None
                    d["label"], d["name"] = (g["label"], g["name"]) if g["label"] != "false_positive" else ("car", "car")
            transforms = build_transforms(tf, warmed=False)
            facts = [object_facts(build_object(d, frame), transforms) for d in gts + ests]
            xs = sorted({abs(f["pos"][0]) for f in facts}) or [5.0]
            ys = sorted({abs(f["pos"][1]) for f in facts}) or [5.0]
            ds = sorted({f["pos"][2] for f in facts}) or [5.0]
            if any(f["is_unknown"] for f in facts):
                xs, ys, ds = ([v for v in l if v * 8 == int(v * 8)] or [5.0] for l in (xs, ys, ds))

            def pick(vals, lo, hi):
                r = rng.random()
                if r < 0.1:
                    return rng.choice([0.0, 0])      # a bound of exactly 0 (falsy but valid; `min_distance: 0.0` is the usual setting)
                return rng.choice(vals) if r < 0.5 else rng.choice(vals) + rng.choice([-0.125, 0.125]) if r < 0.64 else lat(rng, lo, hi)

            def scalar_or_list(f):
                return f() if rng.random() < 0.6 else [f() for _ in MGR_TARGETS]

            over = {}
            if i % 2 == 0:
                over["max_x_position"] = scalar_or_list(lambda: pick(xs, 1, 30))
                over["max_y_position"] = scalar_or_list(lambda: pick(ys, 1, 15))
            else:
                over["max_x_position"], over["max_y_position"] = None, None
                over["max_distance"] = scalar_or_list(lambda: pick(ds, 5, 30))
                over["min_distance"] = scalar_or_list(lambda: pick(ds, 0, 8))
            over["min_point_numbers"] = rng.choice([[0] * 4, 0, [rng.choice([0, 1, 2, 3, 5, 6]) for _ in MGR_TARGETS], 3])
            if rng.random() < 0.5:
                over["confidence_threshold"] = scalar_or_list(lambda: rng.choice([rng.randint(0, 64) / 64.0, 0.5, 0.0]))
            if rng.random() < 0.3:
                over["target_uuids"] = rng.sample(UUIDS, rng.choice([0, 1, 2, 3, 3, 5]))
            if rng.random() < 0.4:
                over["ignore_attributes"] = rng.choice([[], ["cycle_state.without_rider"], ["vehicle_state.parked", "sitting"], ["child"], ["vehicle."],
                                                        ["occlusion_state.most", "debris"], ["state"]])
            if rng.random() < 0.3:
                over["max_matchable_radii"] = rng.choice([2.5, [2.5, 1.5, 1.5, 2.5]])
            case = {"frame": frame, "tf": tf, "gts": gts, "ests": ests, "over": over}
            if i % 2 == 1 and not tf.get("empty"):
                # ACCUMULATION: the manager has ALREADY evaluated two frames of the same scene under two other ego poses (fresh copies of the
                # objects, the frame's own transforms) before the frame under test: only the current frame's pose may count
                case["warm"] = other_poses(rng, tf)
            out.append(case)
        return out

    def run_impl(self, case):
        from perception_eval.common.dataset import FrameGroundTruth
        from perception_eval.common.schema import FrameID
        from perception_eval.common.transform import HomogeneousMatrix
        from harness.props import manager_common as MC

        try:
            mgr = MC.make_manager("detection", case["frame"], tag="c10", **case["over"])
            tf = case["tf"]
            mats = [] if tf.get("empty") else [HomogeneousMatrix(tuple(tf["pos"]), tuple(tf["quat"]), src=FrameID.BASE_LINK, dst=FrameID.MAP)]
            gts = [build_object(d, case["frame"]) for d in case["gts"]]
            ests = [build_object(d, case["frame"]) for d in case["ests"]]
            fresh = build_transforms(tf, warmed=False)
            obs = {"gt_facts": [object_facts(o, fresh) for o in gts], "est_facts": [object_facts(o, fresh) for o in ests]}
            frame_gt = FrameGroundTruth(100, "0", list(gts), transforms=mats)
            gt_list, est_list = frame_gt.objects, list(ests)
            before = fingerprint(gts + ests)
            wide = MC.critical_cfg(mgr, {"max_x_position_list": [100000.0] * 4, "max_y_position_list": [100000.0] * 4})
            for k, pose in enumerate(case.get("warm", [])):
                wm = [HomogeneousMatrix(tuple(pose["pos"]), tuple(pose["quat"]), src=FrameID.BASE_LINK, dst=FrameID.MAP)]
                wf = FrameGroundTruth(80 + 10 * k, str(k + 1), [build_object(d, case["frame"], 80 + 10 * k) for d in case["gts"]], transforms=wm)
                mgr.add_frame_result(80 + 10 * k, wf, [build_object(d, case["frame"], 80 + 10 * k) for d in case["ests"]], wide, MC.passfail_cfg(mgr, 1.0))
            r = mgr.add_frame_result(100, frame_gt, est_list, wide, MC.passfail_cfg(mgr, 1.0))
            gi = {id(o): i for i, o in enumerate(gts)}
            ei = {id(o): i for i, o in enumerate(ests)}
            obs["gt_kept"] = [gi.get(id(o), -1) for o in r.frame_ground_truth.objects]
            obs["results"] = [[ei.get(id(x.estimated_object), -1), None if x.ground_truth_object is None else gi.get(id(x.ground_truth_object), -1)]
                              for x in r.object_results]
            obs["mutated"] = (fingerprint(gts + ests) != before or frame_gt.objects is not gt_list or [id(o) for o in gt_list] != [id(o) for o in gts]
                              or [id(o) for o in est_list] != [id(o) for o in ests])
            return obs
        finally:
            MC.cleanup_tmp()

    def _cfgs(self, case):
        cfg = mgr_cfg_json(case["over"])
        return cfg, {k: v for k, v in cfg.items() if k != "conf"}

    def coq_term(self, case, obs):
        cfg, _ = self._cfgs(case)
        gl = llit([obj_lit(i, f) for i, f in enumerate(obs["gt_facts"])])
        t = f"check_filter_objects {cfg_lit(cfg)} true true {gl} {expected_lit(obs['gt_kept'])}"
        if not cfg.get("uuids"):
            # without a uuid filter every estimate that passes yields exactly one object result
            el = llit([obj_lit(i, f) for i, f in enumerate(obs["est_facts"])])
            t = f"({t} && check_filter_objects {cfg_lit(cfg)} true false {el} {expected_lit(sorted(e for e, _ in obs['results']))})"
        return t

    def oracle(self, case, obs):
        if obs.get("mutated"):
            return "add_frame_result changed the caller's ground-truth frame / estimate list or the objects in them"
        cfg, gt_cfg = self._cfgs(case)
        want_gt = [i for i, f in enumerate(obs["gt_facts"]) if doc_keep(f, gt_cfg, True, True)]
        if obs["gt_kept"] != want_gt:
            i = ([k for k in obs["gt_kept"] if k not in want_gt] + [k for k in want_gt if k not in obs["gt_kept"]])[0]
            return (f"ground truths reaching matching under the manager configuration {case['over']}: {obs['gt_kept']}, the documented criteria select "
                    f"{want_gt}: ground truth {i} facts={obs['gt_facts'][i] if i >= 0 else None}")
        want_est = [j for j, f in enumerate(obs["est_facts"]) if doc_keep(f, cfg, False, True)]
        got_est = sorted(e for e, _ in obs["results"])
        if len(set(got_est)) != len(got_est) or any(e < 0 for e in got_est):
            return f"object results {obs['results']} do not hold each surviving estimate exactly once"
        if any(g is not None and g not in obs["gt_kept"] for _, g in obs["results"]):
            return f"an object result is paired with a ground truth that the manager-level filter removed: {obs['results']} vs kept {obs['gt_kept']}"
        if cfg.get("uuids"):
            # documented (manager): with target uuids the results are filtered too -- every remaining result has a targeted ground truth
            # (an FP-labelled ground truth passes every filter, the uuid one included)
            bad = [[e, g] for e, g in obs["results"] if g is None or not doc_keep(obs["gt_facts"][g], {"uuids": cfg["uuids"]}, True, True)]
            if bad:
                return f"target_uuids={cfg['uuids']} but results without a targeted ground truth remain: {bad}"
            extra = [e for e in got_est if e not in want_est]
            if extra:
                return f"estimate {extra[0]} reaches matching although the documented criteria drop it: facts={obs['est_facts'][extra[0]]} config {case['over']}"
        elif got_est != want_est:
            j = ([k for k in got_est if k not in want_est] + [k for k in want_est if k not in got_est])[0]
            return (f"estimates reaching matching under the manager configuration {case['over']}: {got_est}, the documented criteria select {want_est}: "
                    f"estimate {j} facts={obs['est_facts'][j]}")
        return None

    def nontrivial(self, case, obs):
        n = len(case["gts"]) + len(case["ests"])
        k = len(obs.get("gt_kept", [])) + len(obs.get("results", []))
        return n >= 2 and 0 < k < n

    def describe(self, case, obs):
        return {"case": {"frame": case["frame"], "tf": case["tf"], "over": case["over"], "n_gt": len(case["gts"]), "n_est": len(case["ests"])},
                "observed": {k: obs.get(k) for k in ("gt_kept", "results", "mutated")}}

    def distribution(self, cases, obs):
        d = {"frames": {}, "keys": {}, "gt": 0, "gt_kept": 0, "est": 0, "est_in_results": 0, "results_with_gt": 0, "gtless_results_dropped_by_uuid_filter": 0,
             "scalar_bounds": 0, "per_label_bounds": 0, "manager_evaluated_two_frames_under_other_ego_poses_first": 0, "bounds_of_exactly_0": 0}
        for c, o in zip(cases, obs):
            if "gt_kept" not in o:
                continue
            d["manager_evaluated_two_frames_under_other_ego_poses_first"] += bool(c.get("warm"))
            d["bounds_of_exactly_0"] += sum(1 for k, v in c["over"].items() if k in ("max_x_position", "max_y_position", "max_distance", "min_distance", "confidence_threshold")
                                            and v is not None and (v == 0 if not isinstance(v, list) else any(x == 0 for x in v)))
            d["frames"][c["frame"]] = d["frames"].get(c["frame"], 0) + 1
            for k, v in c["over"].items():
                if v is not None:
                    d["keys"][k] = d["keys"].get(k, 0) + 1
                    if k.startswith(("max_", "min_d", "conf")) and k != "max_matchable_radii":
                        d["per_label_bounds" if isinstance(v, list) else "scalar_bounds"] += 1
            d["gt"] += len(c["gts"])
            d["gt_kept"] += len(o["gt_kept"])
            d["est"] += len(c["ests"])
            d["est_in_results"] += len(o["results"])
            d["results_with_gt"] += sum(1 for _, g in o["results"] if g is not None)
            cfg = mgr_cfg_json(c["over"])
            if cfg.get("uuids"):
                d["gtless_results_dropped_by_uuid_filter"] += sum(1 for j, f in enumerate(o["est_facts"]) if doc_keep(f, cfg, False, True)) - len(o["results"])
        return d


def _o(label, pos, conf=0.5, uuid=None, pts=None, name=None, attrs=(), family="autoware"):
    return {"family": family, "label": label, "name": name or label, "attrs": list(attrs), "conf": conf, "uuid": uuid, "pts": pts,
            "pos": list(pos)}


_T2 = [("autoware", "car"), ("autoware", "pedestrian")]
REGRESSION_OBJECTS = [
    # witness of the repaired defect (/repo 54ea74c): ground truth whose own score does not exceed the confidence
    # threshold of its label must be kept -- the confidence list is for estimates only
    {"frame": "base_link", "tf": None, "is_gt": True, "stream": "regression",
     "objs": [_o("car", (1.0, 0.0, 0.0), 1.0, "a", 3), _o("pedestrian", (1.0, 0.0, 0.0), 1.0, "a", 3), _o("car", (2.0, 0.0, 0.0), 0.25, "a", 3),
              _o("car", (20.0, 0.0, 0.0), 1.0, "a", 3)],
     "cfg": {"targets": _T2, "max_x": [10.0, 10.0], "max_y": [10.0, 10.0], "conf": [0.5, 1.0]}},
    {"frame": "map", "tf": EGO_POSES[1], "is_gt": True, "stream": "regression",
     "objs": [_o("car", (101.0, -50.0, 0.0), 1.0, "a", 3), _o("pedestrian", (101.0, -50.0, 0.0), 1.0, "a", 3)],
     "cfg": {"targets": _T2, "max_dist": [10.0, 10.0], "min_dist": [0.0, 0.0], "conf": [1.0, 1.5]}},
    # every comparison hit with equality and both neighbours, ego frame
    {"frame": "base_link", "tf": None, "is_gt": False, "stream": "regression",
     "objs": [_o("car", (10.0, 0.0, 0.0)), _o("car", (9.875, 0.0, 0.0)), _o("car", (-10.0, 0.0, 0.0)), _o("car", (-10.125, 0.0, 0.0)),
              _o("pedestrian", (10.0, 5.0, 0.0)), _o("pedestrian", (10.0, 4.875, 0.0)), _o("pedestrian", (20.0, 0.0, 0.0)),
              _o("car", (1.0, 0.0, 0.0), conf=0.25), _o("car", (1.0, 0.0, 0.0), conf=0.265625),
              _o("unknown", (14.875, 4.0, 0.0), conf=0.015625), _o("unknown", (15.0, 0.0, 0.0)), _o("unknown", (1.0, 1.0, 0.0), conf=0.0),
              _o("false_positive", (99.0, 99.0, 0.0), conf=0.0), _o("bus", (1.0, 1.0, 0.0))],
     "cfg": {"targets": _T2, "max_x": [10.0, 20.0], "max_y": [5.0, 5.0], "conf": [0.25, 0.0]},
     "wide": {"targets": _T2, "max_x": [10.125, 20.0], "max_y": [5.0, 5.125], "conf": [0.25, 0.0]}},
    # distance ring with points exactly on both radii (3-4-5 triangles), ground truth with points and uuids
    {"frame": "base_link", "tf": None, "is_gt": True, "stream": "regression",
     "objs": [_o("car", (3.0, 4.0, 0.0), 1.0, "a", 3), _o("car", (6.0, 8.0, 0.0), 1.0, "a", 3), _o("car", (4.0, 4.0, 0.0), 1.0, "a", 3),
              _o("car", (4.0, 4.0, 0.0), 1.0, "a", 2), _o("car", (4.0, 4.0, 0.0), 1.0, "c", 3), _o("car", (4.0, 4.0, 0.0), 1.0, None, 3),
              _o("pedestrian", (4.0, 4.0, 0.0), 1.0, "b", 0, "pedestrian.adult", ["pedestrian_state.sitting"]),
              _o("pedestrian", (4.0, 4.0, 0.0), 1.0, "b", 0, "pedestrian.adult"), _o("unknown", (4.0, 4.0, 0.0), 1.0, "a", 9),
              _o("false_positive", (50.0, 0.0, 0.0), 1.0, "zz", 0)],
     "cfg": {"targets": _T2, "max_dist": [10.0, 10.0], "min_dist": [5.0, 0.0], "min_pts": [3, 0], "uuids": ["a", "b"],
             "ignore": ["sitting"]},
     "wide": {"targets": _T2, "max_dist": [10.0, 10.0], "min_dist": [4.875, 0.0], "min_pts": [2, 0], "uuids": ["a", "b"],
              "ignore": ["sitting"]}},
    # map frame, objects on the bound after the transform; with and without transforms (third branch)
    {"frame": "map", "tf": EGO_POSES[1], "is_gt": False, "stream": "regression",
     "objs": [_o("car", (110.0, -50.0, 0.0)), _o("car", (109.875, -50.0, 0.0)), _o("car", (100.0, -45.0, 0.0)), _o("car", (0.0, 0.0, 0.0))],
     "cfg": {"targets": [("autoware", "car")], "max_x": [10.0], "max_y": [5.0]}},
    {"frame": "map", "tf": None, "is_gt": True, "stream": "regression",
     "objs": [_o("car", (110.0, -50.0, 0.0), 1.0, "a", 0), _o("car", (1.0, 1.0, 0.0), 1.0, "a", 0), _o("bus", (1.0, 1.0, 0.0), 1.0, "a", 0)],
     "cfg": {"targets": [("autoware", "car")], "max_x": [10.0], "max_y": [5.0], "min_pts": [5]}},
    # bounds of exactly 0 (falsy but valid): min distance 0 drops only the object AT the ego position (d > 0 fails), a confidence threshold of 0
    # drops only a score of exactly 0, max x / max distance 0 drop everything of that label; the other label keeps its ordinary bound
    {"frame": "base_link", "tf": None, "is_gt": False, "stream": "regression",
     "objs": [_o("car", (0.0, 0.0, 0.0)), _o("car", (0.125, 0.0, 0.0)), _o("pedestrian", (0.0, 0.0, 1.0)), _o("pedestrian", (3.0, 4.0, 0.0)),
              _o("car", (0.0, -0.125, 0.0), conf=0.0), _o("car", (1.0, 1.0, 0.0), conf=0.015625), _o("pedestrian", (1.0, 1.0, 0.0), conf=0.0)],
     "cfg": {"targets": _T2, "max_dist": [10.0, 10.0], "min_dist": [0.0, 0.0], "conf": [0.0, 0.0]},
     "wide": {"targets": _T2, "max_dist": [10.0, 10.0], "min_dist": [0.0, 0.0], "conf": [0.0, 0.0]}, "rep": {"bounds": "int"}},
    {"frame": "map", "tf": EGO_POSES[2], "is_gt": True, "stream": "regression",
     "objs": [_o("car", (12.5, 40.25, 1.0), 1.0, "a", 3), _o("car", (12.5, 40.375, 1.0), 1.0, "a", 3), _o("pedestrian", (12.5, 40.25, 0.5), 1.0, "a", 3)],
     "cfg": {"targets": _T2, "max_dist": [10.0, 10.0], "min_dist": [0.0, 2.0]}},
    {"frame": "base_link", "tf": None, "is_gt": False, "stream": "regression",
     "objs": [_o("car", (1.0, 0.0, 0.0)), _o("car", (0.0, 1.0, 0.0)), _o("pedestrian", (1.0, 0.0, 0.0)), _o("pedestrian", (0.0, 0.0, 0.0)),
              _o("unknown", (2.0, 0.0, 0.0)), _o("unknown", (6.0, 0.0, 0.0))],
     "cfg": {"targets": _T2, "max_x": [0.0, 10.0], "max_y": [10.0, 0.0]}},
    {"frame": "base_link", "tf": None, "is_gt": True, "stream": "regression",
     "objs": [_o("car", (1.0, 0.0, 0.0), 1.0, "a", 3), _o("pedestrian", (1.0, 0.0, 0.0), 1.0, "a", 3), _o("car", (0.0, 0.0, 0.0), 1.0, "a", 3)],
     "cfg": {"targets": _T2, "max_dist": [0.0, 10.0], "min_dist": [0.0, 0.0]}, "rep": {"bounds": "int"}},
    # malformed: bounds without targets / short list / estimate judged against the mean bound still works
    {"frame": "base_link", "tf": None, "is_gt": False, "stream": "regression", "objs": [_o("car", (1.0, 0.0, 0.0))],
     "cfg": {"targets": None, "max_x": [10.0]}},
    {"frame": "base_link", "tf": None, "is_gt": False, "stream": "regression", "objs": [_o("unknown", (1.0, 0.0, 0.0))],
     "cfg": {"targets": None, "max_x": [10.0]}},
    {"frame": "base_link", "tf": None, "is_gt": False, "stream": "regression", "objs": [_o("pedestrian", (1.0, 0.0, 0.0))],
     "cfg": {"targets": _T2, "max_x": [10.0]}},
    {"frame": "base_link", "tf": None, "is_gt": True, "stream": "regression", "objs": [_o("car", (1.0, 0.0, 0.0), 1.0, "a", None)],
     "cfg": {"targets": _T2, "min_pts": [1, 1]}},
]
REGRESSION_RESULTS = [
    # the same witness through filter_object_results: car estimate 0.9 paired with pedestrian ground truth 1.0, conf=[0.5, 1.0]
    {"frame": "base_link", "tf": None, "stream": "regression",
     "ests": [_o("car", (1.0, 0.0, 0.0), conf=0.9), _o("car", (1.0, 0.0, 0.0), conf=0.5)],
     "gts": [_o("pedestrian", (1.0, 0.0, 0.0), 1.0, "a", 3)], "pairs": [[0, 0], [1, None]],
     "cfg": {"targets": _T2, "max_x": [10.0, 10.0], "max_y": [10.0, 10.0], "conf": [0.5, 1.0]}},
    # estimate passes, ground truth fails each GT-only criterion in turn; GT-less result with/without uuids
    {"frame": "base_link", "tf": None, "stream": "regression",
     "ests": [_o("car", (1.0, 0.0, 0.0)) for _ in range(7)],
     "gts": [_o("car", (1.0, 0.0, 0.0), 1.0, "a", 3), _o("car", (10.0, 0.0, 0.0), 1.0, "a", 3), _o("car", (1.0, 0.0, 0.0), 1.0, "a", 2),
             _o("car", (1.0, 0.0, 0.0), 1.0, "q", 3), _o("car", (1.0, 0.0, 0.0), 1.0, "a", 3, "car", ["vehicle_state.parked"]),
             _o("bus", (1.0, 0.0, 0.0), 1.0, "a", 3)],
     "pairs": [[0, 0], [1, 1], [2, 2], [3, 3], [4, 4], [5, 5], [6, None]],
     "cfg": {"targets": [("autoware", "car")], "max_x": [10.0], "min_pts": [3], "uuids": ["a"], "ignore": ["parked"]}},
    {"frame": "base_link", "tf": None, "stream": "regression",
     "ests": [_o("car", (1.0, 0.0, 0.0)), _o("car", (1.0, 0.0, 0.0), conf=0.1)], "gts": [_o("car", (1.0, 0.0, 0.0), 0.0, "a", 3)],
     "pairs": [[0, None], [1, 0]],
     "cfg": {"targets": [("autoware", "car")], "max_x": [10.0], "uuids": [], "conf": [0.25]}},
]


class C10(Prop):
    id = "C10"
    props_file = "Props/C10.v"
    # redundant tie (core.gen_tie): these decision functions, translated from the source on every run, equal the hand model for all inputs
    gen_tie_theorems = ['GenTie_is_target_object', 'GenTie_filter_objects', 'GenTie_filter_object_results', 'GenTieSrc_C10_filter_sublist', 'GenTieSrc_C10_filter_idempotent', 'GenTieSrc_C10_filter_results_sublist_idempotent', 'GenTieSrc_C10_filter_monotone_in_bounds', 'GenTieSrc_C10_fp_label_always_kept']
    gen_files = []
    design_ref = "DESIGN.md section 4, C10"
    technique = ("Rocq proof that the sequential model of _is_target_object (code order, early exits, per-label lookups, mean bounds, "
                 "three position branches, explicit TypeError/IndexError results) equals a declarative keep predicate; list-level "
                 "theorems by induction; in-Coq correspondence of filter_objects / filter_object_results on generated object lists")
    level_text = ("Theorems (Props/C10.v, closed under the global context) over ALL object lists, parameter records and rational bounds: "
                  "filter_objects = List.filter kept under well-formed parameters, kept <-> the documented criteria (Prop-level), "
                  "order-preserving sub-list and idempotence for every returning call, a result stays iff estimate and ground truth pass "
                  "(GT-less results dropped iff a non-empty uuid list is targeted), monotone in every bound incl. the mean bounds, FP label "
                  "always kept, the no-position branch skips bounds and point count, error branches of malformed parameters. The model is "
                  "compared with the real filter_objects / filter_object_results on 3D objects in BASE_LINK, in MAP with rational ego poses "
                  "through TransformDict (yaw-only and tilted), 2D objects without and with a 3D position, mixed-frame lists, with values exactly on every bound, and with the objects "
                  "that reach matching inside PerceptionEvaluationManager._filter_objects (ground truths and estimates of add_frame_result under a binding manager configuration).")
    level_note = ("Trusted: Coq kernel+vm_compute; the facts fed to the model (label id, is_fp/is_unknown, name/attributes, confidence, uuid, "
                  "ego-relative x/y/distance after transforms.transform / get_distance_bev, point count) are read through public getters; "
                  "that these numbers are the right geometry is C07/C18. np.mean is modelled as the exact rational mean.")
    rule = ("streams typical/boundary/malformed/traffic-light x frames base_link / base_link+transforms / map+pose / map without transforms / 2D; "
            "non-trivial = an exception, or a list of >=2 objects of which some but not all are kept; "
            "ego poses: 6 yaw-only + 4 with roll / pitch (rational unit quaternions); 2D objects also WITH a 3D position given in the camera frame and a CAM_FRONT->BASE_LINK entry "
            "(range checks apply, no point count); lists of mixed frame (BASE_LINK and MAP objects in one list, transforms given); positions as tuple / list / numpy array / "
            "Python ints; per-label bound lists as list / tuple / numpy array / with ints, the ignore list as list / tuple, the manager's extra keys (max_matchable_radii, "
            "uuid_matching_first) passed through **kwargs; filter_object_results also under a widened configuration (nothing kept may be lost); parameter lists and the "
            "TransformDict fingerprinted before / after in both filters; manager_filter: 48 (quick) / 500 real managers whose OWN configuration binds (max_x/max_y or "
            "max/min distance as scalar or per-label list, min_point_numbers, confidence_threshold, ignore_attributes, target_uuids, max_matchable_radii) run add_frame_result "
            "under a critical filter that removes nothing: the ground truths and estimates reaching matching must be the documented selection, with target_uuids no result "
            "without a targeted ground truth remains, the caller's frame / lists are unchanged; "
            "16% of the typical / boundary / traffic configurations carry one per-label bound of EXACTLY 0 (max x / y / distance, min distance, confidence; float 0.0 or int 0), in half of "
            "them with every other bound of that label permissive, preferring the label of an object that sits on the zero (4% of the objects are at the ego position, 3% on an axis, 6% of the "
            "estimates have confidence 0); 4 regression inputs hit every zero bound with equality and a neighbour; "
            "40% of the map-frame cases filter the SAME objects through ONE registry under two other ego poses first (entry updated in place: three frames of a moving ego), both filters; "
            "a quarter of the filter_object_results cases list every result without ground truth before the first result with one; "
            "half of the manager cases evaluate two frames under other ego poses on the same manager (and the same critical / pass-fail config instances) first; 10% of the manager's scalar / per-label bounds are exactly 0")
    assumptions = ["well-formed parameters for the exact characterisation (every per-label list as long as a non-empty target list)",
                   "ground truth carries a point count when a point-count bound is configured",
                   "np.mean of the bound list = exact rational mean (inputs on the k/8 lattice)"]
    not_proved = ["that the ego-relative coordinates are geometrically right (C07/C18)", "divide_objects / divide_objects_to_num",
                  "input non-mutation is a runtime observation (checked on every case), not a theorem"]
    trusted_base_extra = ["label ids assigned by harness/props/C10.py:label_id (UNKNOWN/FP fixed, checked against is_fp()/is_unknown() on every object)"]

    def correspondences(self):
        return [FilterObjectsCorr(), FilterResultsCorr(), ManagerCorr()]


READY = True
PROP = C10()
