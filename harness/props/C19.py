"""C19 -- analysis tables are a faithful tabulation of the frame results."""
import math

from harness.lib.core import Corr, Prop, blit, llit, olit, qlit
from harness.props import manager_common as MC

STATUS = ["TP", "FP", "TN", "FN"]
COLS = ["x", "y", "yaw", "length", "width"]          # analysis_columns of the model, in this order
COQ_COL = {"x": "ColX", "y": "ColY", "yaw": "ColYaw", "length": "ColLength", "width": "ColWidth"}

# (evaluation_config_dict overrides, keys to remove, scale applied to generated positions)
CFGS = [
    ({}, [], 1.0),                                                       # areas from max_x = max_y = 100
    ({"max_x_position": 48.0, "max_y_position": 96.0}, [], 1.0),         # grid lines x = +-16, y = +-32 on the k/8 lattice
    ({"max_distance": 160.0, "min_distance": 0.0}, ["max_x_position", "max_y_position"], 3.0),  # analyzer default 100/100, objects beyond it
    ({"target_labels": ["car", "bicycle", "pedestrian", "unknown"]}, [], 1.0),   # 'unknown' is a target: unknown estimates on car GTs are TP pairs with two labels (F15)
]
CRIT = [
    {"max_x_position_list": [200.0] * 4, "max_y_position_list": [200.0] * 4},
    {"max_x_position_list": [30.0] * 4, "max_y_position_list": [30.0] * 4},
    {"max_distance_list": [135.0] * 4, "min_distance_list": [3.0] * 4},
    {"max_x_position_list": [12.5, 30.0, 20.0, 30.0], "max_y_position_list": [30.0, 12.5, 20.0, 30.0]},
]
PF = [1.0, 2.0, 0.5]
# general (non-planar) ego rotations: integer 4-vectors (w, x, y, z) with integer norm
GEN_EGO = [((10, 1, 2, 4), 11), ((14, 2, 5, 0), 15), ((6, 2, 3, 0), 7), ((1, 2, 2, 4), 5), ((2, 3, 6, 0), 7), ((4, 2, 5, 6), 9), ((8, 1, 0, 4), 9),
           ((1, 1, 1, 1), 2), ((12, 3, 4, 0), 13), ((2, 10, 11, 0), 15)]

G = lambda u, lab, x, y, cs=(1.0, 0.0): {"label": lab, "pos": [x, y, 0.0], "size": [2.0, 4.0, 1.5], "yaw_cs": list(cs), "uuid": u, "points": 10}
E = lambda u, lab, x, y, cs=(1.0, 0.0), conf=0.5: {"label": lab, "pos": [x, y, 0.0], "size": [2.0, 4.0, 1.5], "yaw_cs": list(cs), "uuid": u, "conf": conf}

# F11 witness: 3 critical ground truths; t1 is paired with g1 but fails (1.5 m > 1.0 m): g1 is the GT row of the FP pair and an FN row
WITNESS = {
    "stream": "witness", "frame": "base_link", "div": 3, "cfg": 0, "crit": 0, "pf": 0,
    "scenes": [[{"index": 0, "t": 1000000,
                 "gts": [G("g0", "car", 10.0, 0.0), G("g1", "car", 20.0, 5.0), G("g2", "car", -30.0, 5.0)],
                 "ests": [E("t0", "car", 10.0, 0.0, conf=0.9), E("t1", "car", 21.5, 5.0, (0.0, 1.0), conf=0.8)]}]],
    "sels": [{}, {"label": "car"}, {"uuid": "g1"}], "analyze": [{}],
}


# F15 witness: 'unknown' among the targets, unknown-matching allowed: two unknown estimates are TP on two car ground truths, one unknown
# ground truth is missed -> summarize_ratio row 'unknown': TP = 2 estimate rows / 1 ground-truth row = 2.0
WITNESS_F15 = {
    "stream": "witness_f15", "frame": "base_link", "div": 1, "cfg": 3, "crit": 0, "pf": 0,
    "scenes": [[{"index": 0, "t": 1000000,
                 "gts": [G("g0", "car", 10.0, 0.0), G("g1", "car", 20.0, 5.0), G("g2", "unknown", -30.0, 5.0)],
                 "ests": [E("t0", "unknown", 10.0, 0.0, conf=0.9), E("t1", "unknown", 20.0, 5.0, conf=0.8)]}]],
    "sels": [{}, {"label": "unknown"}], "analyze": [{}],
}


def mixed_label_tp(obs):
    """F15 class: a TP pair whose estimate and ground truth carry different labels"""
    return any(e["label"] != g["label"] for sc in obs.get("facts", []) for f in sc for e, g in f["tp"])


def make_manager(cfg_i, frame, tag="c19"):
    from perception_eval.config import PerceptionEvaluationConfig
    from perception_eval.manager import PerceptionEvaluationManager

    over, drop, _ = CFGS[cfg_i]
    cfg = MC.base_config("detection", **over)
    for k in drop:
        cfg.pop(k, None)
    config = PerceptionEvaluationConfig(dataset_paths=[MC.FIXTURE], frame_id=frame, result_root_directory=MC.tmp_dir(tag),
                                        evaluation_config_dict=cfg, load_raw_data=False)
    return PerceptionEvaluationManager(config)


def evaluate_scenes(case):
    """frame results of every scene, produced by a real manager (one manager per scene)"""
    out, mgr = [], None
    for frames in case["scenes"]:
        mgr = make_manager(case["cfg"], case["frame"])
        tg = CFGS[case["cfg"]][0].get("target_labels")
        for fr in frames:
            mgr.add_frame_result(fr["t"], MC.make_gt_frame(fr, case["frame"], name=fr.get("name")), MC.make_estimates(fr, case["frame"]),
                                 MC.critical_cfg(mgr, CRIT[case["crit"]], tg), MC.passfail_cfg(mgr, PF[case["pf"]], tg))
        out.append(list(mgr.frame_results))
    if mgr is None:
        mgr = make_manager(case["cfg"], case["frame"])
    return mgr, out


def obj_facts(o, transforms):
    """the facts the table stores, through the same public transform the analyzer uses"""
    import numpy as np
    from perception_eval.common.schema import FrameID
    from perception_eval.common.transform import TransformKey

    pos, rot = transforms.transform(TransformKey(o.frame_id, FrameID.BASE_LINK), o.state.position, o.state.orientation)
    x, y, _ = pos
    w, l, _ = o.state.size
    return {"uuid": o.uuid, "label": str(o.semantic_label.label), "isfp": bool(o.semantic_label.is_fp()),
            "x": float(x), "y": float(y), "yaw": float(rot.yaw_pitch_roll[0]), "dist": float(np.linalg.norm([x, y]).item()),
            "w": float(w), "l": float(l)}


def frame_facts(r):
    tf = r.frame_ground_truth.transforms
    pf = r.pass_fail_result
    return {"num": int(r.frame_name), "ncrit": len(r.frame_ground_truth.objects),
            "tp": [[obj_facts(x.estimated_object, tf), obj_facts(x.ground_truth_object, tf)] for x in pf.tp_object_results],
            "fp": [[obj_facts(x.estimated_object, tf), obj_facts(x.ground_truth_object, tf) if x.ground_truth_object is not None else None]
                   for x in pf.fp_object_results],
            "tn": [obj_facts(g, tf) for g in pf.tn_objects], "fn": [obj_facts(g, tf) for g in pf.fn_objects]}


def sel_kwargs(sel):
    return dict(sel)


EXPECTED_ERRORS = (TypeError, IndexError, ValueError, KeyError)


def guarded(f):
    try:
        return {"ok": f()}
    except EXPECTED_ERRORS as e:
        return {"error": f"{type(e).__name__}: {str(e)[:120]}"}


def fnum(x):
    x = float(x)
    return None if x != x else x


def summaries_of(err_df, labels):
    """summarize_error() DataFrame -> [label][column] -> [avg, rms, std, max, min] | None (NaN)"""
    out = []
    for lab in labels:
        row = []
        for c in COLS:
            v = [fnum(err_df.loc[(lab, c), k]) for k in ("average", "rms", "std", "max", "min")]
            row.append(None if any(a is None for a in v) else v)
        out.append(row)
    return out


def ratios_of(df, labels):
    return [[float(df.loc[lab, s]) for s in STATUS] for lab in labels]


def cm_of(cm):
    return None if cm is None else {"labels": [str(c) for c in cm.columns], "m": [[int(v) for v in row] for row in cm.to_numpy()]}


class AnalyzerCorr(Corr):
    name = "analysis_table"
    header = ("From Coq Require Import List Bool ZArith Arith.\nFrom PE Require Import Base.CaseUtil Model.Analyzer.\n"
              "Import ListNotations.\nOpen Scope Q_scope.\n")
    requires = ["Model/Analyzer.vo", "Base/CaseUtil.vo"]
    shard = 8
    parallel_min = 4

    # ------------------------------------------------------------------ generation
    def cases(self, tier, rng):
        out = [WITNESS, WITNESS_F15]
        # regression inputs: nothing at all, only FN, only FP without ground truth, FP-labelled ground truths, two scenes
        out.append({"stream": "edge", "frame": "base_link", "div": 1, "cfg": 0, "crit": 0, "pf": 0,
                    "scenes": [[{"index": 0, "t": 1000000, "gts": [], "ests": []}]], "sels": [{}], "analyze": [{}]})
        out.append({"stream": "edge", "frame": "map", "div": 9, "cfg": 0, "crit": 0, "pf": 0,
                    "scenes": [[{"index": 0, "t": 1000000, "gts": [G("g0", "car", 10.0, 0.0)], "ests": [],
                                 "ego": {"t": [3.0, -4.0, 0.5], "cs": [0.6, 0.8]}}]], "sels": [{}, {"area": 4}], "analyze": [{}, {"label": "car"}]})
        out.append({"stream": "edge", "frame": "base_link", "div": 3, "cfg": 0, "crit": 0, "pf": 0,
                    "scenes": [[{"index": 0, "t": 1000000, "gts": [], "ests": [E("t0", "car", 10.0, 0.0)]}]], "sels": [{}], "analyze": [{}]})
        f_fp = {"index": 0, "t": 1000000,
                "gts": [G("g0", "car", 10, 0), G("g1", "car", 20, 5), G("g2", "false_positive", -30, 5), G("g3", "false_positive", 40, -5), G("g4", "bicycle", 50, 50)],
                "ests": [E("t0", "car", 10, 0.5), E("t1", "car", 21.5, 5, (0.0, 1.0)), E("t2", "car", -30, 5.25), E("t3", "car", 41.5, -5),
                         E("t4", "pedestrian", -60, -60)]}
        f_b = {"index": 1, "t": 1100000, "gts": [G("g0", "car", 10, 0, (-1.0, 0.0)), G("g1", "bicycle", -50, 20)],
               "ests": [E("t0", "car", 10.25, 0), E("t5", "unknown", -50, 20.5)]}
        out.append({"stream": "edge", "frame": "base_link", "div": 9, "cfg": 0, "crit": 0, "pf": 0, "scenes": [[f_fp, f_b], [f_b]],
                    "sels": [{}, {"scene": 1}, {"label": "bicycle"}, {"area": [0, 5, 3]}, {"frame": 1, "scene": 0}, {"status": ["FP", "FN"]}],
                    "analyze": [{}, {"scene": 1}, {"area": 4}, {"distance": [5.0, 20.0]}, {"scene": 7}, {"label": "bicycle"}]})
        n = 40 if tier == "quick" else 700
        rnd = [self.gen_case(rng, ci) for ci in range(n)]
        # deal the random cases over the coqc shards by size (large tables dominate the evaluation time of a shard)
        rnd.sort(key=lambda c: -sum(len(fr["gts"]) + len(fr["ests"]) for sc in c["scenes"] for fr in sc))
        nsh = max(1, -(-len(rnd) // self.shard))
        out += [rnd[j] for k in range(nsh) for j in range(k, len(rnd), nsh)]
        return out

    def gen_case(self, rng, ci):
        cfg = 3 if ci % 5 == 4 else ([0, 1, 2][ci % 3] if ci % 7 else 1)
        scale = CFGS[cfg][2]
        frame = "map" if ci % 2 else "base_link"
        clean = ci % 6 in (2, 3)               # stream without FP pairs on ordinary ground truths (outside the F11 class)
        general_ego = frame == "map" and ci % 4 == 1
        n_scenes = 1 if rng.random() < 0.6 else (2 if rng.random() < 0.8 else 3)      # up to three scenes through one analyzer
        scenes = []
        for s in range(n_scenes):
            frames = []
            for i in range(rng.randint(1, 3) if n_scenes < 3 else 1 + (s == 1)):
                fr = MC.gen_frame(rng, i, n_gt=(0 if rng.random() < 0.08 else None), with_ego=(frame == "map" or rng.random() < 0.5))
                for g in fr["gts"]:
                    if rng.random() < 0.12:
                        g["label"] = "false_positive"
                for o in fr["gts"] + fr["ests"]:
                    o["pos"] = [o["pos"][0] * scale, o["pos"][1] * scale, o["pos"][2]]
                    o["yaw_cs"] = list(o["yaw_cs"])
                if cfg == 1:     # boundary stream: objects on / next to the grid lines of the 3 and 9 divisions
                    for g in fr["gts"]:
                        if rng.random() < 0.35:
                            old = list(g["pos"])
                            g["pos"][0] = rng.choice([16.0, -16.0, 16.125, -15.875, 40.0, 47.875])
                            if rng.random() < 0.5:
                                g["pos"][1] = rng.choice([32.0, -32.0, 31.875, -32.125])
                            for e in fr["ests"]:
                                if e["uuid"] == "t" + g["uuid"][1:]:
                                    e["pos"][0] += g["pos"][0] - old[0]
                                    e["pos"][1] += g["pos"][1] - old[1]
                if clean:
                    # no estimate that is paired with an ordinary ground truth and then fails: every generated pair is close (<= 0.73 m) and
                    # carries the ground truth's label, stray estimates carry a label no ground truth of the frame has
                    by = {g["uuid"]: g for g in fr["gts"]}
                    gl = {g["label"] for g in fr["gts"]}
                    keep = []
                    for e in fr["ests"]:
                        g = by.get("g" + e["uuid"][1:]) if e["uuid"].startswith("t") else None
                        if g is not None:
                            dx, dy = rng.choice([(0, 0), (0.25, 0), (0, 0.5), (0.375, 0.5), (0.5, -0.25), (-0.5, 0.5)])
                            e["pos"] = [g["pos"][0] + dx, g["pos"][1] + dy, g["pos"][2]]
                            e["label"] = g["label"] if g["label"] != "false_positive" else e["label"]
                            keep.append(e)
                        else:
                            free = [l for l in MC.TARGETS if l not in gl]
                            if free:
                                e["label"] = rng.choice(free)
                                keep.append(e)
                    fr["ests"] = keep
                if frame == "base_link" and fr["gts"] and rng.random() < 0.6:
                    # ego-frame scenes: ground truths (with their estimate, same offset) at EXACT distances 5, 10, 20, 60 m (Pythagorean positions;
                    # the norm is exact in binary64): the bounds of the distance selections of analyze() are hit with equality
                    for g in rng.sample(fr["gts"], min(len(fr["gts"]), rng.randint(1, 2))):
                        nx, ny = rng.choice([(3.0, 4.0), (-4.0, 3.0), (6.0, -8.0), (-8.0, -6.0), (12.0, 16.0), (-16.0, 12.0), (0.0, -20.0), (36.0, 48.0), (10.0, 0.0)])
                        dx, dy = nx - g["pos"][0], ny - g["pos"][1]
                        g["pos"] = [nx, ny, g["pos"][2]]
                        for e in fr["ests"]:
                            if e["uuid"] == "t" + g["uuid"][1:]:
                                e["pos"] = [e["pos"][0] + dx, e["pos"][1] + dy, e["pos"][2]] if rng.random() < 0.5 else [nx, ny, e["pos"][2]]
                # velocities (k/8 lattice; some objects without an estimated velocity, as the loader yields them)
                for o in fr["gts"] + fr["ests"]:
                    o["vel"] = None if rng.random() < 0.12 else [rng.randint(-80, 80) / 8, rng.randint(-80, 80) / 8, 0.0]
                if general_ego and fr.get("ego") is not None:
                    # a general ego rotation (roll and pitch): rational point of S^3, either sign
                    v, n = rng.choice(GEN_EGO)
                    sg = rng.choice((1, -1))
                    fr["ego"]["q"] = [sg * c / n for c in v]
                if frame == "map" and ci % 4 == 3 and frames and rng.random() < 0.5:
                    # a frame that carries the NAME of its predecessor under another ego pose: what interpolate_ground_truth_frames yields
                    # (a deepcopy of the before-frame with a new ego->map entry); every row must still be in its OWN frame's ego coordinates
                    fr["name"] = frames[-1].get("name", str(frames[-1]["index"]))
                frames.append(fr)
            MC.assign_confidences(frames, rng, distinct=True)
            scenes.append(frames)
        # keep the table small (the exact rational summaries inside Coq grow faster than linearly with the paired rows)
        while sum(len(fr["gts"]) for sc in scenes for fr in sc) > 17 and any(len(sc) > 1 for sc in scenes):
            max(scenes, key=len).pop()
        labels = MC.TARGETS
        sels = [{}]
        pool = [{"scene": rng.randrange(2)}, {"label": rng.choice(labels)}, {"frame": rng.randrange(3)}, {"area": rng.randrange(9)},
                {"scene": [0, 1], "label": rng.choice(labels)}, {"status": rng.sample(STATUS, 2)}, {"uuid": f"g{rng.randrange(4)}"},
                {"area": rng.sample(range(9), 3), "frame": [0, 1]}, {"label": ["car", "unknown", "false_positive"]}]
        sels += rng.sample(pool, 3)
        apool = [{"scene": rng.randrange(2)}, {"area": rng.randrange(3)}, {"label": rng.choice(labels)},
                 {"distance": [rng.choice([0.0, 5.0, 10.0]), rng.choice([20.0, 40.5, 60.0])]},
                 {"scene": 0, "distance": [0.0, 35.0]}, {"frame": rng.randrange(2), "area": [0, 1, 4]}]
        # selections chosen from the content: the most frequent ground-truth label (rows of that label usually exist in every scene / frame /
        # distance band, inside AND outside a second criterion), distance bands cut at the generated distances
        gl = [g["label"] for sc in scenes for fr in sc for g in fr["gts"] if g["label"] in labels]
        if gl:
            top = max(sorted(set(gl)), key=gl.count)
            ds_ = sorted(math.hypot(g["pos"][0], g["pos"][1]) for sc in scenes for fr in sc for g in fr["gts"])
            cut = float(math.floor(ds_[len(ds_) // 2])) + rng.choice([0.0, 0.5])
            ipool = [{"label": top, "scene": rng.randrange(n_scenes)}, {"label": top, "distance": [0.0, max(cut, 1.0)]},
                     {"distance": [max(cut, 1.0), 1000.0]}, {"label": top, "frame": 0}, {"distance": [rng.choice([5.0, 10.0]), rng.choice([20.0, 60.0])]},
                     {"scene": n_scenes - 1}, {"label": top, "area": rng.randrange(3)}]
        else:
            ipool = [{"scene": 0}, {"distance": [0.0, 20.0]}]
        div = [1, 3, 9][(ci // 3) % 3]
        return {"stream": "clean" if clean else "random", "frame": frame, "div": div, "cfg": cfg, "crit": rng.randrange(len(CRIT)),
                "pf": rng.randrange(2) if clean else rng.randrange(len(PF)),
                "scenes": scenes, "sels": sels, "analyze": [{}] + rng.sample(apool, 2),
                # judged by the oracle only (the exact rational summaries of further non-empty selections are costly inside Coq)
                "analyze_oracle": rng.sample(ipool, 2),
                "general_ego": general_ego, "readd": ci % 3 == 0, "div_default": div == 1 and ci % 2 == 0}

    # ------------------------------------------------------------------ implementation
    def run_impl(self, case):
        try:
            return self._run(case)
        finally:
            MC.cleanup_tmp()

    def _run(self, case):
        import numpy as np
        import pandas as pd
        from perception_eval.evaluation.result.perception_frame_result import get_object_status
        from perception_eval.tool import PerceptionAnalyzer3D

        mgr, scene_results = evaluate_scenes(case)
        from perception_eval.common.status import MatchingStatus, get_scene_rates

        if case.get("div_default") and case["div"] == 1:
            an = PerceptionAnalyzer3D(mgr.evaluator_config)         # the documented default: one area
        else:
            an = PerceptionAnalyzer3D(mgr.evaluator_config, num_area_division=case["div"])
        obs = {"facts": [[frame_facts(r) for r in rs] for rs in scene_results],
               "areas": [[float(a), float(b), float(c), float(d)] for (a, b), (c, d) in zip(an.upper_rights.tolist(), an.bottom_lefts.tolist())],
               "max_xy": [float(mgr.evaluator_config.evaluation_config_dict.get("max_x_position", 100.0)),
                          float(mgr.evaluator_config.evaluation_config_dict.get("max_y_position", 100.0))],
               "targets": list(an.target_labels), "pi": float(np.pi)}
        added = guarded(lambda: [an.add(rs) for rs in scene_results] and None)
        if "error" in added:
            obs["add_error"] = added["error"]
            return obs
        if case.get("readd"):
            # the same analyzer cleared and filled again: everything below reads the second table, which must be the first one
            sig = lambda: [an.df.to_json(), an.num_scene, an.num_frame]
            first = sig()
            an.clear()
            cleared = [len(an.df), an.num_scene, an.num_frame]
            again = guarded(lambda: [an.add(rs) for rs in scene_results] and None)
            obs["readd"] = {"cleared": cleared, "same": "error" not in again and sig() == first, "error": again.get("error")}
        # read-only accessors first: none of them may change the table the analysis reads
        if len(an.df) > 0 and len(case["scenes"][0]) % 2 == 1:
            guarded(lambda: (an.sortby("x"), an.sortby(["y", "x"], ascending=True), an.sortby("confidence"), an.head(3), an.tail(2), an.keys(),
                             an.shape(), an.get(scene=0), an.get_ground_truth(status="FN"), an.get_estimation(label="car")) and None)
            obs["accessors_first"] = True
        df = an.df
        obs["num_scene"], obs["num_frame"] = an.num_scene, an.num_frame
        cols = ["uuid", "label", "x", "y", "yaw", "status", "area", "frame", "scene", "distance", "width", "length", "vx", "vy", "speed"]
        rows = []
        if len(df) > 0:
            sp = df[cols].to_dict("split")
            for (i, side), rec in zip(sp["index"], sp["data"]):
                d = dict(zip(cols, rec))
                if pd.isnull(d["status"]):
                    r = None
                else:
                    r = {"uuid": d["uuid"], "label": d["label"], "x": float(d["x"]), "y": float(d["y"]), "yaw": float(d["yaw"]), "status": d["status"],
                         "area": None if pd.isnull(d["area"]) else int(d["area"]), "frame": int(d["frame"]), "scene": int(d["scene"]),
                         "distance": float(d["distance"]), "width": float(d["width"]), "length": float(d["length"]),
                         "vx": fnum(d["vx"]), "vy": fnum(d["vy"]), "speed": fnum(d["speed"])}      # oracle only (None = NaN)
                rows.append([int(i), side, r])
        obs["rows"] = rows
        obs["props"] = guarded(lambda: [an.num_ground_truth, an.num_estimation, an.num_tp, an.num_fp, an.num_tn, an.num_fn])
        obs["sels"] = [guarded(lambda s=s: [an.get_num_ground_truth(**s), an.get_num_estimation(**s), an.get_num_tp(**s), an.get_num_fp(**s),
                                            an.get_num_tn(**s), an.get_num_fn(**s)]) for s in case["sels"]]
        # --- oracle-only observations (the model does not see them)
        plain = [s for s in case["sels"] if "status" not in s]
        obs["status_num"] = guarded(lambda: {"str": [an.get_status_num(st) for st in STATUS],
                                             "enum": [an.get_status_num(MatchingStatus[st]) for st in STATUS],
                                             "sels": [[an.get_status_num(st if k % 2 else MatchingStatus[st], **s) for st in STATUS]
                                                      for k, s in enumerate(plain)]})
        obs["errors_v"] = {c: guarded(lambda c=c: [fnum(v) for v in an.calculate_error(c)]) for c in ("vx", "vy", "speed")}
        obs["errors"] = {c: guarded(lambda c=c: [float(v) for v in an.calculate_error(c)]) for c in COLS + ["distance"]}
        obs["errors_xy"] = guarded(lambda: [[float(a), float(b)] for a, b in np.asarray(an.calculate_error(["x", "y"])).reshape(-1, 2)])
        labels = ["ALL"] + list(an.target_labels)
        obs["summary"] = guarded(lambda: summaries_of(an.summarize_error(), labels))
        obs["ratio"] = guarded(lambda: ratios_of(an.summarize_ratio(), labels))
        obs["cm"] = guarded(lambda: cm_of(an.get_confusion_matrix()))
        def run_analyze(kws):
            out = []
            for kw in kws:
                kw = dict(kw)
                if "distance" in kw:
                    kw["distance"] = tuple(kw["distance"])

                def one(kw=kw):
                    res = an.analyze(**kw)
                    if res.score is None:
                        return None
                    return {"ratio": ratios_of(res.score, labels), "summary": summaries_of(res.error, labels), "cm": cm_of(res.confusion_matrix)}
                out.append(guarded(one))
            return out
        obs["analyze"] = run_analyze(case["analyze"])
        obs["analyze_oracle"] = run_analyze(case.get("analyze_oracle", []))     # oracle only
        inf = lambda v: "inf" if v == float("inf") else float(v)
        sts_all = [get_object_status(rs) for rs in scene_results]
        obs["status_rates"] = [[[s.uuid, [inf(r.rate) for r in s.get_status_rates()], [str(r.status) for r in s.get_status_rates()]] for s in sts]
                               for sts in sts_all]
        obs["scene_rates"] = [[inf(v) for v in get_scene_rates(sts)] for sts in sts_all] + [[inf(v) for v in get_scene_rates([])]]
        obs["status"] = [[[s.uuid, list(s.total_frame_nums), list(s.tp_frame_nums), list(s.fp_frame_nums), list(s.tn_frame_nums), list(s.fn_frame_nums)]
                          for s in get_object_status(rs)] for rs in scene_results]
        return obs

    # ------------------------------------------------------------------ Coq side
    @staticmethod
    def tables(obs):
        """label and uuid interning shared by the inputs and the observations"""
        labels = list(obs["targets"])
        if "unknown" not in labels:
            labels.append("unknown")
        nc = len(labels)
        extra, uu = set(), set()
        for sc in obs["facts"]:
            for f in sc:
                for e, g in f["tp"] + f["fp"]:
                    for o in (e, g):
                        if o is not None:
                            extra.add(o["label"])
                            uu.add(o["uuid"])
                for o in f["tn"] + f["fn"]:
                    extra.add(o["label"])
                    uu.add(o["uuid"])
        for _, _, r in obs.get("rows", []):
            if r is not None:
                extra.add(r["label"])
                uu.add(r["uuid"])
        labels += sorted(x for x in extra | {"false_positive", "truck"} if x not in labels)
        return labels, nc, {u: i for i, u in enumerate(sorted(uu, key=str))}

    def lits(self, case, obs):
        labels, nc, uid = self.tables(obs)
        lab = {l: i for i, l in enumerate(labels)}

        def o_lit(o):
            return (f"(mkObj {uid[o['uuid']]} {lab[o['label']]} {blit(o['isfp'])} {qlit(o['x'])} {qlit(o['y'])} {qlit(o['yaw'])} "
                    f"{qlit(o['dist'])} {qlit(o['w'])} {qlit(o['l'])})")

        def f_lit(f):
            tp = llit([f"({o_lit(e)}, {o_lit(g)})" for e, g in f["tp"]])
            fp = llit([f"({o_lit(e)}, {olit(g, o_lit)})" for e, g in f["fp"]])
            return f"(mkFrame {f['num']} {tp} {fp} {llit([o_lit(g) for g in f['tn']])} {llit([o_lit(g) for g in f['fn']])} {f['ncrit']})"

        areas = llit([f"(({qlit(a)}, {qlit(b)}), ({qlit(c)}, {qlit(d)}))" for a, b, c, d in obs["areas"]])
        scenes = llit([llit([f_lit(f) for f in sc]) for sc in obs["facts"]])
        return labels, nc, uid, lab, areas, scenes

    @staticmethod
    def crits(sel, lab, uid):
        """keyword selection -> list crit (None when a value cannot be expressed, e.g. an unknown uuid -> matches nothing)"""
        as_list = lambda v: list(v) if isinstance(v, (list, tuple)) else [v]
        out = []
        for k, v in sel.items():
            if k == "label":
                out.append("CLabel " + llit([str(lab.get(x, 999)) + "%nat" for x in as_list(v)]))
            elif k == "scene":
                out.append("CScene " + llit([f"{int(x)}%nat" for x in as_list(v)]))
            elif k == "frame":
                out.append("CFrame " + llit([f"{int(x)}%nat" for x in as_list(v)]))
            elif k == "area":
                out.append("CArea " + llit([f"{int(x)}%nat" for x in as_list(v)]))
            elif k == "status":
                out.append("CStatus " + llit(as_list(v)))
            elif k == "uuid":
                out.append("CUuid " + llit([str(uid.get(x, 99999)) + "%nat" for x in as_list(v)]))
            else:
                raise KeyError(k)
        return llit(out)

    @staticmethod
    def nat_list(l):
        return llit([f"{int(x)}%nat" for x in l])

    def summ_lit(self, summ, amb):
        """[label][column] -> option (option OSummary); the yaw column is not compared when ambiguous (see Model/Analyzer.v)"""
        rows = []
        for row in summ:
            cells = []
            for c, v in zip(COLS, row):
                if c == "yaw" and amb:
                    cells.append("None")
                else:
                    cells.append("(Some " + olit(v, lambda t: "(" + ", ".join(qlit(x) for x in t) + ")") + ")")
            rows.append(llit(cells))
        return llit(rows)

    def cm_lit(self, g, nc, labels):
        """guarded confusion matrix -> option (option (list (list nat)))"""
        if "error" in g:
            return "None"
        cm = g["ok"]
        if cm is None:
            return "(Some None)"
        if cm["labels"] != labels[:nc]:
            return "(Some (Some []))"      # unexpected label order: cannot match
        return "(Some (Some " + llit([self.nat_list(r) for r in cm["m"]]) + "))"

    @staticmethod
    def ambiguous(obs):
        """a paired row whose yaw difference is +-pi up to rounding (either branch of the wrap is right)"""
        for sc in obs["facts"]:
            for f in sc:
                for e, g in f["tp"] + f["fp"]:
                    if g is not None and abs(abs(g["yaw"] - e["yaw"]) - math.pi) < 1e-9:
                        return True
        return False

    def coq_term(self, case, obs):
        labels, nc, uid, lab, areas, scenes = self.lits(case, obs)
        nt = len(obs["targets"])
        head = (f"(let areas := {areas} in let P := {qlit(obs['pi'])} in let scenes := {scenes} in let T := build areas scenes in "
                f"check_areas {case['div']}%nat {qlit(obs['max_xy'][0])} {qlit(obs['max_xy'][1])} (Some areas) && check_accounted scenes && ")
        if "add_error" in obs:
            return head + "table_raises T)%bool"
        amb = self.ambiguous(obs)
        st = lambda s: s
        def row_lit(r):
            return (f"({uid[r['uuid']]}%nat, {lab[r['label']]}%nat, ({qlit(r['x'])}, {qlit(r['y'])}, {qlit(r['yaw'])}), {st(r['status'])}, "
                    f"{olit(r['area'], lambda a: str(a) + '%nat')}, {r['frame']}%nat, {r['scene']}%nat)")
        ents = []
        rows = obs["rows"]
        ok_shape = len(rows) % 2 == 0 and all(rows[2 * k][1] == "ground_truth" and rows[2 * k + 1][1] == "estimation" and rows[2 * k][0] == rows[2 * k + 1][0]
                                              for k in range(len(rows) // 2))
        if not ok_shape:
            return "false"
        for k in range(len(rows) // 2):
            ents.append(f"({rows[2 * k][0]}%nat, {olit(rows[2 * k][2], row_lit)}, {olit(rows[2 * k + 1][2], row_lit)})")
        gl = lambda g, f: "None" if "error" in g else f"(Some {f(g['ok'])})"
        parts = ["negb (table_raises T)", f"check_table T {llit(ents)}",
                 f"check_counters [] T {gl(obs['props'], self.nat_list)}"]
        for s, g in zip(case["sels"], obs["sels"]):
            parts.append(f"check_counters {self.crits(s, lab, uid)} T {gl(g, self.nat_list)}")
        ql = lambda l: llit([qlit(x) for x in l])
        for c in COLS:
            parts.append(f"check_errors P {COQ_COL[c]} T {gl(obs['errors'][c], ql)}")
        parts.append(f"check_distance T {gl(obs['errors']['distance'], ql)}")
        parts.append(f"check_errors P ColX T {gl(obs['errors_xy'], lambda l: ql([a for a, _ in l]))}")
        parts.append(f"check_errors P ColY T {gl(obs['errors_xy'], lambda l: ql([b for _, b in l]))}")
        parts.append(f"check_summaries P {nt}%nat T {gl(obs['summary'], lambda s: self.summ_lit(s, amb))}")
        rl = lambda rs: llit(["(" + ", ".join(qlit(x) for x in r) + ")" for r in rs])
        parts.append(f"check_ratios {nt}%nat T {gl(obs['ratio'], rl)}")
        parts.append(f"check_cm {nc}%nat T {self.cm_lit(obs['cm'], nc, labels)}")
        for kw, g in zip(case["analyze"], obs["analyze"]):
            if "error" in g:
                parts.append("false")
                continue
            sel = {k: v for k, v in kw.items() if k != "distance"}
            dist = olit(kw.get("distance"), lambda d: f"({qlit(d[0])}, {qlit(d[1])})")
            a = g["ok"]
            o = "None" if a is None else f"(Some ({rl(a['ratio'])}, {self.summ_lit(a['summary'], amb)}, {self.cm_lit({'ok': a['cm']}, nc, labels)}))"
            parts.append(f"check_analyze P {nt}%nat {nc}%nat {self.crits(sel, lab, uid)} {dist} T {o}")
        for sc, sts in zip(range(len(obs["facts"])), obs["status"]):
            o = llit([f"({uid[u]}%nat, {self.nat_list(t)}, {self.nat_list(a)}, {self.nat_list(b)}, {self.nat_list(c)}, {self.nat_list(d)})" for u, t, a, b, c, d in sts])
            parts.append(f"check_object_status (nth {sc} scenes []) {o}")
        return head + " && ".join("(" + p + ")" for p in parts) + ")%bool"

    def coq_debug(self, case, obs):
        labels, nc, uid, lab, areas, scenes = self.lits(case, obs)
        return (f"let T := build {areas} {scenes} in (map (fun e => (e_idx e, option_map (fun r => (o_uuid (r_obj r), r_status r, r_area r)) (e_gt e), "
                f"option_map (fun r => (o_uuid (r_obj r), r_status r, r_area r)) (e_est e))) T, counters [] T, get_confusion_matrix {nc}%nat T, "
                f"map (get_object_status) {scenes})")

    # ------------------------------------------------------------------ the property, stated on the implementation's outputs
    def oracle(self, case, obs):
        return oracle(case, obs)

    def nontrivial(self, case, obs):
        fs = [f for sc in obs["facts"] for f in sc]
        return len(fs) >= 2 and sum(len(f["tp"]) for f in fs) >= 1 and sum(len(f["fp"]) + len(f["fn"]) for f in fs) >= 1

    def describe(self, case, obs):
        fs = [f for sc in obs["facts"] for f in sc]
        return {"case": {k: case[k] for k in ("stream", "frame", "div", "cfg", "crit", "pf", "sels", "analyze")} |
                {"frames_per_scene": [len(s) for s in case["scenes"]], "objects": [[len(f["gts"]), len(f["ests"])] for s in case["scenes"] for f in s]},
                "observed": {"lists": [[len(f["tp"]), len(f["fp"]), len(f["tn"]), len(f["fn"]), f["ncrit"]] for f in fs], "counters": obs.get("props"),
                             "ratio_ALL": (obs.get("ratio") or {}).get("ok", [None])[0] if isinstance(obs.get("ratio"), dict) else None,
                             "cm": obs.get("cm")}}

    def distribution(self, cases, obs):
        d = {"frames": {"base_link": 0, "map": 0}, "div": {1: 0, 3: 0, 9: 0}, "cfg": {0: 0, 1: 0, 2: 0, 3: 0}, "mixed_label_tp_cases(F15 class)": 0, "read_only_accessors_called_first": 0, "scenes2": 0, "n_frames": 0, "rows": 0,
             "tp": 0, "fp_with_gt": 0, "fp_without_gt": 0, "tn": 0, "fn": 0, "fp_pairs_with_ordinary_gt(F11 class)": 0, "frames_in_F11_class": 0,
             "rows_area_none": 0, "rows_on_grid_line": 0, "empty_tables": 0, "yaw_ambiguous_cases": 0, "fp_labelled_gt_rows": 0, "analyze_empty": 0,
             "streams": {}, "cases_with_general_ego_rotation(roll/pitch)": 0, "rows_under_general_ego_rotation": 0,
             "cases_cleared_and_filled_again": 0, "cases_with_default_num_area_division": 0, "cases_outside_F11_class_with_rows": 0,
             "objects_without_velocity": 0, "objects_with_velocity": 0, "velocity_rows_checked(base_link)": 0,
             "get_status_num_calls": 0, "scenes3": 0,
             "analyze_selections": {"judged": 0, "with_paired_rows_of_a_selected_label_left_outside": 0, "label_rows_of_rates_judged": 0,
                                    "row_distance_equal_to_a_bound": 0}, "status_rates": {"records": 0, "rate_inf(status_without_frame)": 0}, "analyze_scene_or_frame_rate_checks": 0}
        for c, o in zip(cases, obs):
            if not isinstance(o, dict) or "facts" not in o:
                continue
            d["frames"][c["frame"]] += 1
            d["div"][c["div"]] += 1
            d["streams"][c["stream"]] = d["streams"].get(c["stream"], 0) + 1
            d["cases_with_general_ego_rotation(roll/pitch)"] += bool(c.get("general_ego"))
            d["cases_cleared_and_filled_again"] += "readd" in o
            d["cases_with_default_num_area_division"] += bool(c.get("div_default") and c["div"] == 1)
            for fr in [fr for sc in c["scenes"] for fr in sc]:
                for ob in fr["gts"] + fr["ests"]:
                    if "vel" in ob:
                        d["objects_without_velocity" if ob["vel"] is None else "objects_with_velocity"] += 1
            if o.get("rows"):
                d["cases_outside_F11_class_with_rows"] += not any(g is not None and not g["isfp"] for sc in o["facts"] for f in sc for _, g in f["fp"])
                if c.get("general_ego"):
                    d["rows_under_general_ego_rotation"] += len(o["rows"]) // 2
                if c["frame"] == "base_link":
                    d["velocity_rows_checked(base_link)"] += sum(1 for _, _, r in o["rows"] if r is not None)
            if isinstance(o.get("status_num"), dict) and "ok" in o["status_num"]:
                d["get_status_num_calls"] += 8 + 4 * len(o["status_num"]["ok"]["sels"])
            for sts in o.get("status_rates", []):
                for _, rr, _ in sts:
                    d["status_rates"]["records"] += 1
                    d["status_rates"]["rate_inf(status_without_frame)"] += sum(1 for r in rr if r == "inf")
            d["analyze_scene_or_frame_rate_checks"] += sum(1 for kw, g in zip(c["analyze"], o.get("analyze", []))
                                                           if kw and not (set(kw) - {"scene", "frame"}) and "ok" in g and g["ok"] is not None)
            d["cfg"][c["cfg"]] += 1
            d["scenes3"] += len(c["scenes"]) == 3
            rows_ = o.get("rows") or []
            prs = [(rows_[2 * k][0], rows_[2 * k][2], rows_[2 * k + 1][2]) for k in range(len(rows_) // 2)]
            for kw, g in zip(c["analyze"] + c.get("analyze_oracle", []), o.get("analyze", []) + o.get("analyze_oracle", [])):
                if not kw or "ok" not in g or g["ok"] is None or not prs:
                    continue
                sel = set(selected_pairs(kw, prs))
                aa = d["analyze_selections"]
                aa["judged"] += 1
                inside = {prs[k][1]["label"] for k in sel if prs[k][1] is not None and prs[k][2] is not None}
                aa["with_paired_rows_of_a_selected_label_left_outside"] += any(
                    k not in sel and gr is not None and er is not None and gr["label"] in inside for k, (_, gr, er) in enumerate(prs))
                if "distance" in kw:
                    aa["row_distance_equal_to_a_bound"] += any(r is not None and r["distance"] in kw["distance"] for _, gr, er in prs for r in (gr, er))
                for lname in o["targets"]:
                    n_gt = sum(1 for k in sel if prs[k][1] is not None and prs[k][1]["label"] == lname)
                    mixed = any(prs[k][1] is not None and prs[k][2] is not None and prs[k][1]["label"] != prs[k][2]["label"]
                                and lname in (prs[k][1]["label"], prs[k][2]["label"]) for k in sel)
                    aa["label_rows_of_rates_judged"] += n_gt > 0 and not mixed
            d["scenes2"] += len(c["scenes"]) == 2
            d["yaw_ambiguous_cases"] += self.ambiguous(o)
            d["mixed_label_tp_cases(F15 class)"] += mixed_label_tp(o)
            d["read_only_accessors_called_first"] += bool(o.get("accessors_first"))
            for sc in o["facts"]:
                for f in sc:
                    d["n_frames"] += 1
                    d["tp"] += len(f["tp"])
                    d["fp_with_gt"] += sum(g is not None for _, g in f["fp"])
                    d["fp_without_gt"] += sum(g is None for _, g in f["fp"])
                    d["tn"] += len(f["tn"])
                    d["fn"] += len(f["fn"])
                    k = sum(g is not None and not g["isfp"] for _, g in f["fp"])
                    d["fp_pairs_with_ordinary_gt(F11 class)"] += k
                    d["frames_in_F11_class"] += k > 0
                    d["fp_labelled_gt_rows"] += sum(g["isfp"] for g in f["tn"]) + sum(g is not None and g["isfp"] for _, g in f["fp"])
            rows = o.get("rows", [])
            d["rows"] += len(rows) // 2
            d["empty_tables"] += len(rows) == 0
            mx, my = o["max_xy"]
            for _, _, r in rows:
                if r is not None:
                    d["rows_area_none"] += r["area"] is None
                    d["rows_on_grid_line"] += (c["div"] >= 3 and abs(abs(r["x"]) - mx / 3) < 1e-9) or (c["div"] == 9 and abs(abs(r["y"]) - my / 3) < 1e-9)
            d["analyze_empty"] += sum(1 for g in o.get("analyze", []) if "ok" in g and g["ok"] is None)
        return d


# ----------------------------------------------------------------------------------------------------
# the property, stated directly on the analyzer's outputs vs the frame results' pass/fail lists
# ----------------------------------------------------------------------------------------------------
def spec_objects(case):
    """(scene, frame number, uuid) -> the generated object (positions / yaw in the EGO frame)"""
    out = {}
    for s, frames in enumerate(case["scenes"]):
        for fr in frames:
            for o in fr["gts"] + fr["ests"]:
                out[(s, fr["index"], o["uuid"])] = o
    return out


def ang_diff(a, b):
    d = (a - b) % (2 * math.pi)
    return min(d, 2 * math.pi - d)


def expected_area(div, mx, my, x, y, exact):
    """index of the area of the ego-frame point (x, y) as documented: 3 * (y band) + (x band), bands = thirds of (-max, max) from the
    top, all inequalities strict; None outside and on a grid line.  'skip' = too close to a line to be judged (the implementation's
    inner lines are the binary64 neighbours of the thirds; map-frame positions carry rounding noise)."""
    from fractions import Fraction as F

    X, Y, MX, MY = F(x), F(y), F(mx), F(my)
    for M, V, cut in ((MX, X, div >= 3), (MY, Y, div == 9)):
        lines = [M, -M] + ([M / 3, -M / 3] if cut else [])
        for ln in lines:
            inexact = F(float(ln)) != ln
            if abs(V - ln) < F(1, 10 ** 6) and (inexact or not exact):
                return "skip"

    def band(M, V, cut):
        if not (-M < V < M):
            return None
        if not cut:
            return 0
        if V == M / 3 or V == -M / 3:
            return None
        return 0 if V > M / 3 else (1 if V > -M / 3 else 2)

    bx, by = band(MX, X, div >= 3), band(MY, Y, div == 9)
    if bx is None or by is None:
        return None
    return 3 * by + bx if div == 9 else bx


def close(a, b, tol):
    return abs(a - b) <= tol * (1 + abs(a) + abs(b))


def oracle(case, obs):
    import numpy as np

    if "add_error" in obs:
        return f"PerceptionAnalyzer3D.add raised {obs['add_error']}"
    facts = obs["facts"]
    frames = [(s, f) for s, sc in enumerate(facts) for f in sc]
    spec = spec_objects(case)
    rows = obs["rows"]
    pairs = [(rows[2 * k][0], rows[2 * k][2], rows[2 * k + 1][2]) for k in range(len(rows) // 2)]
    # 1. one ground-truth / estimate row pair per TP, FP, TN, FN item, in this order, numbered consecutively
    expected = []
    exp_ord = []          # position of the item's frame in its scene (= the frame number unless a frame carries its predecessor's name)
    for s, sc in enumerate(facts):
        for fi, f in enumerate(sc):
            n0 = len(expected)
            for e, g in f["tp"]:
                expected.append((s, f["num"], "TP", g, e))
            for e, g in f["fp"]:
                expected.append((s, f["num"], "FP", g, e))
            for g in f["tn"]:
                expected.append((s, f["num"], "TN", g, None))
            for g in f["fn"]:
                expected.append((s, f["num"], "FN", g, None))
            exp_ord += [fi] * (len(expected) - n0)
    if len(pairs) != len(expected) or len(rows) != 2 * len(pairs):
        return f"the table has {len(pairs)} row pairs for {len(expected)} TP/FP/TN/FN items of the frame results"
    mx, my = obs["max_xy"]
    for k, ((i, gr, er), (s, fn_, st, g, e)) in enumerate(zip(pairs, expected)):
        if i != k:
            return f"row pair {k} is numbered {i}"
        for side, r, o in (("ground_truth", gr, g), ("estimation", er, e)):
            if (r is None) != (o is None):
                return f"row pair {k} ({st} item of scene {s} frame {fn_}): {side} row is {'missing' if r is None else 'present'} but the item {'has' if o is not None else 'has no'} such object"
            if r is None:
                continue
            if r["uuid"] != o["uuid"] or r["label"] != o["label"] or r["status"] != st or r["frame"] != fn_ or r["scene"] != s:
                return (f"row pair {k} {side}: uuid/label/status/frame/scene {[r['uuid'], r['label'], r['status'], r['frame'], r['scene']]} "
                        f"but the item is {[o['uuid'], o['label'], st, fn_, s]}")
            # positions and yaw are expressed in the ego frame: the generated ego-frame pose, whatever frame the scene was rendered in
            so = spec.get((s, exp_ord[k], r["uuid"]))
            if so is not None:
                yaw = math.atan2(so["yaw_cs"][1], so["yaw_cs"][0])
                if abs(r["x"] - so["pos"][0]) > 1e-6 or abs(r["y"] - so["pos"][1]) > 1e-6 or ang_diff(r["yaw"], yaw) > 1e-6:
                    return (f"row pair {k} {side} ({r['uuid']}, {case['frame']} frame{', general ego rotation' if case.get('general_ego') else ''}): x/y/yaw {r['x']:.6f}/{r['y']:.6f}/{r['yaw']:.6f} are not the ego-frame "
                            f"pose {so['pos'][0]}/{so['pos'][1]}/{yaw:.6f}")
                if abs(r["width"] - so["size"][0]) > 1e-9 or abs(r["length"] - so["size"][1]) > 1e-9:
                    return f"row pair {k} {side}: width/length {r['width']}/{r['length']} differ from the object's {so['size'][:2]}"
            if abs(r["distance"] - math.hypot(r["x"], r["y"])) > 1e-9 * (1 + r["distance"]):
                return f"row pair {k} {side}: distance column {r['distance']} is not the norm of (x, y)"
        # area: that of the estimate for TP/FP items, of the ground truth for TN/FN items
        ref = er if er is not None else gr
        so = spec.get((s, exp_ord[k], ref["uuid"]))
        if so is not None:
            want = expected_area(case["div"], mx, my, so["pos"][0], so["pos"][1], case["frame"] == "base_link")
            for side, r in (("ground_truth", gr), ("estimation", er)):
                if r is not None and want != "skip" and r["area"] != want:
                    return (f"row pair {k} {side}: area {r['area']} but ({so['pos'][0]}, {so['pos'][1]}) lies in area {want} of the "
                            f"{case['div']}-division of +-{mx} x +-{my}")
    if not pairs:
        return None       # nothing tabulated: every query raises on the initial empty DataFrame (modelled; not part of the property)
    # 2. counters
    for what, g in [("num_*", obs["props"])] + [(f"get_num_*({s})", g) for s, g in zip(case["sels"], obs["sels"])]:
        if "error" in g:
            return f"{what} raised {g['error']} on a non-empty table"
    n_gt, n_est, n_tp, n_fp, n_tn, n_fn = obs["props"]["ok"]
    tot = lambda k: sum(len(f[k]) for _, f in frames)
    if [n_tp, n_fp, n_tn, n_fn] != [tot("tp"), tot("fp"), tot("tn"), tot("fn")]:
        return f"num_tp/fp/tn/fn {[n_tp, n_fp, n_tn, n_fn]} differ from the sizes of the pass/fail lists {[tot('tp'), tot('fp'), tot('tn'), tot('fn')]}"
    if n_est != tot("tp") + tot("fp"):
        return f"num_estimation {n_est} is not the number of evaluated estimates {tot('tp') + tot('fp')}"
    for s, g in zip(case["sels"], obs["sels"]):
        want = selected_counts(s, frames, obs)
        if want is not None and g["ok"][1:] != want[1:]:
            return f"get_num_estimation/tp/fp/tn/fn({s}) = {g['ok'][1:]} but the pass/fail lists give {want[1:]}"
    # 3. errors = ground truth minus estimate on the paired items (TP and FP with a ground truth), yaw wrapped
    paired = [(g, e) for _, _, st, g, e in expected if g is not None and e is not None]
    for c, key in (("x", "x"), ("y", "y"), ("width", "w"), ("length", "l")):
        g_ = obs["errors"][c]
        if "error" in g_:
            return f"calculate_error({c}) raised {g_['error']}"
        want = [g[key] - e[key] for g, e in paired]
        if len(g_["ok"]) != len(want) or any(abs(a - b) > 1e-9 for a, b in zip(g_["ok"], want)):
            return f"calculate_error({c}) = {g_['ok'][:6]} is not ground truth minus estimate over the {len(want)} paired rows {want[:6]}"
    ey = obs["errors"]["yaw"]
    if "error" in ey:
        return f"calculate_error(yaw) raised {ey['error']}"
    if len(ey["ok"]) != len(paired):
        return f"calculate_error(yaw) has {len(ey['ok'])} entries for {len(paired)} paired rows"
    for v, (g, e) in zip(ey["ok"], paired):
        if not (-math.pi - 1e-9 <= v <= math.pi + 1e-9):
            return f"yaw error {v} is outside [-pi, pi] (ground truth yaw {g['yaw']}, estimate yaw {e['yaw']})"
        if ang_diff(v, g["yaw"] - e["yaw"]) > 1e-9:
            return f"yaw error {v} is not the difference {g['yaw']} - {e['yaw']} modulo 2 pi"
    ed = obs["errors"]["distance"]
    if "error" in ed:
        return f"calculate_error(distance) raised {ed['error']}"
    want = [math.hypot(g["x"] - e["x"], g["y"] - e["y"]) for g, e in paired]
    if len(ed["ok"]) != len(want) or any(abs(a - b) > 1e-9 * (1 + b) for a, b in zip(ed["ok"], want)):
        return f"calculate_error(distance) = {ed['ok'][:6]} is not the norm of the xy difference {want[:6]}"
    # 4. summaries: mean, RMS, std, max |.|, min |.| of the errors it reports (ALL row), per label over the pairs of that ground-truth label
    sm = obs["summary"]
    if "error" in sm:
        return f"summarize_error raised {sm['error']}"
    amb = AnalyzerCorr.ambiguous(obs)
    labels = ["ALL"] + obs["targets"]
    for li, lname in enumerate(labels):
        sub = [(g, e) for g, e in paired if lname == "ALL" or g["label"] == lname]
        for ci, c in enumerate(COLS):
            got = sm["ok"][li][ci]
            if c == "yaw":
                if amb:
                    continue
                arr = np.array([wrap_pi(g["yaw"] - e["yaw"]) for g, e in sub])
            else:
                key = {"x": "x", "y": "y", "length": "l", "width": "w"}[c]
                arr = np.array([g[key] - e[key] for g, e in sub])
            if len(arr) == 0:
                if got is not None:
                    return f"summarize_error[{lname}][{c}] = {got} although there is no paired row"
                continue
            want = [float(arr.mean()), float(np.sqrt((arr ** 2).mean())), float(np.sqrt(((arr - arr.mean()) ** 2).mean())), float(np.abs(arr).max()), float(np.abs(arr).min())]
            if got is None or any(abs(a - b) > 1e-6 * (1 + abs(b)) for a, b in zip(got, want)):
                return f"summarize_error[{lname}][{c}] = {got} but mean/RMS/std/max/min of the {len(arr)} errors are {want}"
    # 5. rates
    rt = obs["ratio"]
    if "error" in rt:
        return f"summarize_ratio raised {rt['error']}"
    f15_msg = None
    for lname, r in zip(labels, rt["ok"]):
        if any(not (0.0 <= v <= 1.0) for v in r):
            msg = f"summarize_ratio[{lname}] = {dict(zip(STATUS, r))} is not within [0, 1]"
            # F15 class: only the per-label TP rate exceeds 1 and a TP pair carries two different labels (estimate rows over ground-truth rows)
            if lname != "ALL" and r[0] > 1.0 and all(0.0 <= v <= 1.0 for v in r[1:]) and mixed_label_tp(obs):
                f15_msg = f15_msg or ("F15-class: " + msg)
                continue
            return msg
    if n_gt > 0:
        want = [n_tp / n_gt, (n_fp / (n_tp + n_fp) if n_tp + n_fp else 0.0), n_tn / n_gt, n_fn / n_gt]
        if any(abs(a - b) > 1e-12 for a, b in zip(rt["ok"][0], want)):
            return f"summarize_ratio[ALL] = {rt['ok'][0]} but TP/GT, FP/(TP+FP), TN/GT, FN/GT = {want}"
    # 6. confusion matrix
    cm = obs["cm"]
    cm_labels = obs["targets"] + ([] if "unknown" in obs["targets"] else ["unknown"])
    outside = [(g["label"], e["label"]) for g, e in paired if g["label"] not in cm_labels or e["label"] not in cm_labels]
    if "error" in cm:
        if not outside:
            return f"get_confusion_matrix raised {cm['error']} although every paired label is one of {cm_labels}"
    elif cm["ok"] is None:
        if paired:
            return f"get_confusion_matrix returned None for {len(paired)} paired rows"
    else:
        m = cm["ok"]["m"]
        if sum(map(sum, m)) != len(paired):
            return f"the confusion matrix sums to {sum(map(sum, m))}, there are {len(paired)} paired rows"
        for i, gl in enumerate(cm["ok"]["labels"]):
            for j, el in enumerate(cm["ok"]["labels"]):
                k = sum(1 for g, e in paired if g["label"] == gl and e["label"] == el)
                if m[i][j] != k:
                    return f"confusion matrix [{gl}][{el}] = {m[i][j]} but {k} paired rows have ground-truth label {gl} and estimate label {el}"
    # 7. analyze() = the same summaries on the selected rows
    for kw, g in zip(case["analyze"] + case.get("analyze_oracle", []), obs["analyze"] + obs.get("analyze_oracle", [])):
        if "error" in g:
            return f"analyze({kw}) raised {g['error']}"
        a = g["ok"]
        if a is None:
            if selected_pairs(kw, pairs):
                return f"analyze({kw}) returned nothing although {len(selected_pairs(kw, pairs))} row pairs are selected"
            continue
        for lname, r in zip(labels, a["ratio"]):
            if any(not (0.0 <= v <= 1.0) for v in r):
                msg = f"analyze({kw}).score[{lname}] = {dict(zip(STATUS, r))} is not within [0, 1]"
                if lname != "ALL" and r[0] > 1.0 and all(0.0 <= v <= 1.0 for v in r[1:]) and mixed_label_tp(obs):
                    f15_msg = f15_msg or ("F15-class: " + msg)
                    continue
                return msg
        if not kw:
            if a["ratio"] != rt["ok"] or a["cm"] != cm.get("ok") or not same_summaries(a["summary"], sm["ok"]):
                return "analyze() differs from summarize_ratio() / summarize_error() / get_confusion_matrix()"
        msg = oracle_analyze(kw, a, expected, pairs, labels, amb)
        if msg:
            return msg
        if a["cm"] is not None:
            want_pairs = analyze_pairs(kw, expected, pairs)
            if want_pairs is not None and sum(map(sum, a["cm"]["m"])) != want_pairs:
                return f"analyze({kw}).confusion_matrix sums to {sum(map(sum, a['cm']['m']))}, {want_pairs} paired rows are selected"
    msg = oracle_extra(case, obs, frames, expected, pairs, paired, spec)
    if msg:
        return msg
    # 8. per-object status tallies: frames where the ground truth is TP / FP / TN / FN, each ground truth once per frame
    f11_status = None
    for s, (sc, sts) in enumerate(zip(facts, obs["status"])):
        uu = [x[0] for x in sts]
        if len(set(uu)) != len(uu):
            return f"get_object_status (scene {s}) has two records for one uuid: {uu}"
        for u, total, tp, fp, tn, fn in sts:
            want = {"TP": [f["num"] for f in sc for _, g in f["tp"] if g["uuid"] == u],
                    "FP": [f["num"] for f in sc for _, g in f["fp"] if g is not None and g["uuid"] == u],
                    "TN": [f["num"] for f in sc for g in f["tn"] if g["uuid"] == u],
                    "FN": [f["num"] for f in sc for g in f["fn"] if g["uuid"] == u]}
            if [tp, fp, tn, fn] != [want[k] for k in STATUS]:
                return f"get_object_status (scene {s}) {u}: TP/FP/TN/FN frames {[tp, fp, tn, fn]} but the pass/fail lists give {[want[k] for k in STATUS]}"
            if sorted(total) != sorted(tp + fp + tn + fn):
                return f"get_object_status (scene {s}) {u}: total frames {total} are not the union of its status frames"
            # a ground truth recorded more than once WITHIN one frame (frames are told apart by position: two frames may carry one name,
            # as interpolated frames do, and then legitimately contribute one entry each under the same number)
            def _occ(f):
                return (sum(1 for _, g in f["tp"] if g["uuid"] == u), sum(1 for _, g in f["fp"] if g is not None and g["uuid"] == u),
                        sum(1 for g in f["tn"] if g["uuid"] == u), sum(1 for g in f["fn"] if g["uuid"] == u))
            dupf = [f for f in sc if sum(_occ(f)) > 1]
            dup = sorted({f["num"] for f in dupf})
            if dup and f11_status is None:
                # F11 class: the duplicate is exactly one FP record and one FN record of an ordinary ground truth paired with a failing estimate
                cls = all(_occ(f) == (0, 1, 0, 1) and any(g is not None and g["uuid"] == u and not g["isfp"] for _, g in f["fp"]) for f in dupf)
                msg = f"get_object_status (scene {s}) records ground truth {u} more than once in frame(s) {dup}: total {total}, FP {fp}, FN {fn}"
                if not cls:
                    return msg
                f11_status = "F11-class: " + msg
        seen = set(uu)
        for f in sc:
            for g in [g for _, g in f["tp"]] + [g for _, g in f["fp"] if g is not None] + f["tn"] + f["fn"]:
                if g["uuid"] not in seen:
                    return f"get_object_status (scene {s}) has no record for ground truth {g['uuid']}"
    # 9. ground-truth count = number of critical ground truths  (fails on F11; reported last so that nothing else hides behind it)
    ncrit = sum(f["ncrit"] for _, f in frames)
    if n_gt != ncrit:
        d = sum(1 for _, f in frames for _, g in f["fp"] if g is not None and not g["isfp"])
        msg = f"num_ground_truth {n_gt} but the frames have {ncrit} critical ground truths"
        if d > 0 and n_gt == ncrit + d:
            return f"F11-class: {msg}; {d} ground truth(s) paired with a failing estimate are tabulated as the FP pair's ground truth and again as FN"
        return msg
    for s, g in zip(case["sels"], obs["sels"]):
        want = selected_counts(s, frames, obs)
        if want is not None and g["ok"][0] != want[0]:
            # the only admissible surplus is the F11 one (counted in `want` through the pass/fail lists themselves)
            return f"get_num_ground_truth({s}) = {g['ok'][0]} but the pass/fail lists give {want[0]}"
    return f11_status or f15_msg


def oracle_extra(case, obs, frames, expected, pairs, paired, spec):
    """clauses added by the strengthening round (all on oracle-only observations)"""
    # a. an analyzer cleared and filled again holds the same table
    ra = obs.get("readd")
    if ra is not None:
        if ra["cleared"] != [0, 0, 0]:
            return f"clear() leaves len(df) / num_scene / num_frame = {ra['cleared']}"
        if not ra["same"]:
            return f"after clear() the same frame results give another table (scene numbers, rows or counters differ){': ' + ra['error'] if ra['error'] else ''}"
    # b. get_status_num(status) = the counter of that status, for the string and the enum spelling, with and without a selection
    sn = obs["status_num"]
    if "error" in sn:
        return f"get_status_num raised {sn['error']}"
    for k in ("str", "enum"):
        if sn["ok"][k] != obs["props"]["ok"][2:6]:
            return f"get_status_num(TP/FP/TN/FN as {k}) = {sn['ok'][k]} but num_tp/fp/tn/fn = {obs['props']['ok'][2:6]}"
    plain = [(s, g) for s, g in zip(case["sels"], obs["sels"]) if "status" not in s]
    for (s, g), got in zip(plain, sn["ok"]["sels"]):
        if got != g["ok"][2:6]:
            return f"get_status_num(TP/FP/TN/FN, {s}) = {got} but get_num_tp/fp/tn/fn({s}) = {g['ok'][2:6]}"
    # c. velocity columns and their errors (ego-frame renderings only: the property text fixes the frame of positions and yaw only)
    if case["frame"] == "base_link":
        def vel(s_, fn_, o):
            so = spec.get((s_, fn_, o["uuid"]))
            return None if so is None or "vel" not in so else (so["vel"],)
        for k, ((i, gr, er), (s_, fn_, st, g, e)) in enumerate(zip(pairs, expected)):
            for side, r, o in (("ground_truth", gr, g), ("estimation", er, e)):
                v = vel(s_, fn_, o) if r is not None else None
                if v is None:
                    continue
                want = [None, None, None] if v[0] is None else [v[0][0], v[0][1], math.hypot(v[0][0], v[0][1])]
                got = [r["vx"], r["vy"], r["speed"]]
                if any((a is None) != (b is None) or (a is not None and abs(a - b) > 1e-9) for a, b in zip(got, want)):
                    return f"row pair {k} {side} ({r['uuid']}): vx/vy/speed {got} but the object's velocity is {v[0]} (None = NaN)"
        pv = [(vel(s_, fn_, g), vel(s_, fn_, e)) for s_, fn_, st, g, e in expected if g is not None and e is not None]
        if all(a is not None and b is not None for a, b in pv):
            for ci, c in enumerate(("vx", "vy", "speed")):
                g_ = obs["errors_v"][c]
                if "error" in g_:
                    return f"calculate_error({c}) raised {g_['error']}"
                comp = (lambda v: v[ci]) if ci < 2 else (lambda v: math.hypot(v[0], v[1]))
                want = [None if a[0] is None or b[0] is None else comp(a[0]) - comp(b[0]) for a, b in pv]
                if len(g_["ok"]) != len(want) or any((x is None) != (y is None) or (x is not None and abs(x - y) > 1e-9) for x, y in zip(g_["ok"], want)):
                    return f"calculate_error({c}) = {g_['ok'][:6]} is not ground truth minus estimate over the paired rows {want[:6]} (None = NaN: no velocity)"
    # d. analyze(scene / frame selection): the ALL rates are those of the selected counters
    labels = ["ALL"] + obs["targets"]
    for kw, g in zip(case["analyze"], obs["analyze"]):
        if not kw or set(kw) - {"scene", "frame"} or "error" in g or g["ok"] is None:
            continue
        n_gt, n_est, n_tp, n_fp, n_tn, n_fn = selected_counts(kw, frames, obs)
        if n_gt > 0:
            want = [n_tp / n_gt, (n_fp / (n_tp + n_fp) if n_tp + n_fp else 0.0), n_tn / n_gt, n_fn / n_gt]
            if any(abs(a - b) > 1e-12 for a, b in zip(g["ok"]["ratio"][0], want)):
                return f"analyze({kw}).score[ALL] = {g['ok']['ratio'][0]} but the selected rows give TP/GT, FP/(TP+FP), TN/GT, FN/GT = {want}"
    # e. frame rates of the per-object tallies: len(status frames) / len(total frames); over a scene: the same on the summed lengths
    for s_, (sts, rates) in enumerate(zip(obs["status"], obs["status_rates"])):
        tot = [0, 0, 0, 0, 0]
        for (u, total, tp, fp, tn, fn), (u2, rr, names) in zip(sts, rates):
            if u != u2 or names != STATUS:
                return f"get_status_rates (scene {s_}) of {u}: statuses {names} for uuid {u2}"
            for name, lst, r in zip(STATUS, (tp, fp, tn, fn), rr):
                # (a status with no frame is reported as inf today; the documentation is silent, so only non-empty tallies are judged)
                if lst and (r == "inf" or abs(r - len(lst) / len(total)) > 1e-12):
                    return f"get_status_rates (scene {s_}) of {u}: {name} rate {r} but {len(lst)} of {len(total)} frames"
            for i_, lst in enumerate((total, tp, fp, tn, fn)):
                tot[i_] += len(lst)
        got = obs["scene_rates"][s_]
        want = ["inf"] * 4 if tot[0] == 0 else [x / tot[0] for x in tot[1:]]
        if any((a == "inf") != (b == "inf") or (a != "inf" and abs(a - b) > 1e-12) for a, b in zip(got, want)):
            return f"get_scene_rates (scene {s_}) = {got} but TP/FP/TN/FN frames over total frames = {want}"
    if obs["scene_rates"][-1] != ["inf"] * 4:
        return f"get_scene_rates([]) = {obs['scene_rates'][-1]}, documented: a sequence of inf"
    return None


def wrap_pi(d):
    if d > math.pi:
        d -= 2 * math.pi
    if d < -math.pi:
        d += 2 * math.pi
    return d


def same_summaries(a, b):
    for ra, rb in zip(a, b):
        for x, y in zip(ra, rb):
            if (x is None) != (y is None):
                return False
            if x is not None and any(abs(p - q) > 1e-9 * (1 + abs(q)) for p, q in zip(x, y)):
                return False
    return True


def selected_counts(sel, frames, obs):
    """[gt, est, tp, fp, tn, fn] under a keyword selection, from the pass/fail lists (ground-truth rows: TP, FP-with-GT, TN, FN items);
    None for selections on the area (checked row by row)"""
    if "area" in sel:
        return None
    as_list = lambda v: list(v) if isinstance(v, (list, tuple)) else [v]
    def ok(o, s, fnum, st):
        for k, v in sel.items():
            val = {"label": o["label"], "scene": s, "frame": fnum, "status": st, "uuid": o["uuid"]}[k]
            if val not in as_list(v):
                return False
        return True
    gt = est = tp = fp = tn = fn = 0
    for s, f in frames:
        for e, g in f["tp"]:
            tp += ok(e, s, f["num"], "TP")
            est += ok(e, s, f["num"], "TP")
            gt += ok(g, s, f["num"], "TP")
        for e, g in f["fp"]:
            fp += ok(e, s, f["num"], "FP")
            est += ok(e, s, f["num"], "FP")
            if g is not None:
                gt += ok(g, s, f["num"], "FP")
        for g in f["tn"]:
            tn += ok(g, s, f["num"], "TN")
            gt += ok(g, s, f["num"], "TN")
        for g in f["fn"]:
            fn += ok(g, s, f["num"], "FN")
            gt += ok(g, s, f["num"], "FN")
    return [gt, est, tp, fp, tn, fn]


def selected_pairs(kw, pairs):
    """indices of the row pairs analyze(kw) works on: a pair is selected when, for every key, one of its rows matches (distance: lies in
    [min, max))"""
    as_list = lambda v: list(v) if isinstance(v, (list, tuple)) else [v]
    out = []
    for k, (i, gr, er) in enumerate(pairs):
        keep = True
        for key, v in kw.items():
            if key == "distance":
                keep = keep and any(r is not None and v[0] <= r["distance"] < v[1] for r in (gr, er))
            else:
                keep = keep and any(r is not None and r[key] in as_list(v) for r in (gr, er))
        if keep:
            out.append(k)
    return out


def oracle_analyze(kw, a, expected, pairs, labels, amb):
    """analyze(selection): rates and error summaries of the SELECTED row pairs only -- per label as well as over all labels (rows of the
    same label outside the selection must not leak in).  A label row of the rates is judged when the selected pairs touching that label
    carry equal labels on both rows (otherwise ground-truth and estimate rows of the label are different sets: F15 class) and the label
    has a selected ground-truth row."""
    import numpy as np

    sel = selected_pairs(kw, pairs)
    if not sel:
        return f"analyze({kw}) returned tables although no row pair is selected"
    rows = [(pairs[k][1], pairs[k][2], expected[k]) for k in sel]
    for li, lname in enumerate(labels):
        is_l = lambda r: r is not None and (lname == "ALL" or r["label"] == lname)
        n_gt = sum(1 for gr, er, _ in rows if is_l(gr))
        mixed = any(gr is not None and er is not None and gr["label"] != er["label"] and (is_l(gr) or is_l(er)) for gr, er, _ in rows)
        if n_gt > 0 and (lname == "ALL" or not mixed):
            tp = sum(1 for gr, er, _ in rows if is_l(er) and er["status"] == "TP")
            fp = sum(1 for gr, er, _ in rows if is_l(er) and er["status"] == "FP")
            tn = sum(1 for gr, er, _ in rows if is_l(gr) and gr["status"] == "TN")
            fn = sum(1 for gr, er, _ in rows if is_l(gr) and gr["status"] == "FN")
            want = [tp / n_gt, (fp / (tp + fp) if tp + fp else 0.0), tn / n_gt, fn / n_gt]
            if any(abs(x - y) > 1e-12 for x, y in zip(a["ratio"][li], want)):
                return (f"analyze({kw}).score[{lname}] = {a['ratio'][li]} but the {len(sel)} selected row pairs give TP/GT, FP/(TP+FP), TN/GT, FN/GT = "
                        f"{want} ({n_gt} ground-truth rows of that label selected)")
        sub = [(g, e) for gr, er, (_, _, _, g, e) in rows if gr is not None and er is not None and (lname == "ALL" or g["label"] == lname)]
        for ci, c in enumerate(COLS):
            got = a["summary"][li][ci]
            if c == "yaw":
                if amb:
                    continue
                arr = np.array([wrap_pi(g["yaw"] - e["yaw"]) for g, e in sub])
            else:
                key = {"x": "x", "y": "y", "length": "l", "width": "w"}[c]
                arr = np.array([g[key] - e[key] for g, e in sub])
            if len(arr) == 0:
                if got is not None:
                    return f"analyze({kw}).error[{lname}][{c}] = {got} although no paired row of that label is selected"
                continue
            want = [float(arr.mean()), float(np.sqrt((arr ** 2).mean())), float(np.sqrt(((arr - arr.mean()) ** 2).mean())), float(np.abs(arr).max()), float(np.abs(arr).min())]
            if got is None or any(abs(x - y) > 1e-6 * (1 + abs(y)) for x, y in zip(got, want)):
                return (f"analyze({kw}).error[{lname}][{c}] = {got} but mean/RMS/std/max/min of the errors of the {len(arr)} selected paired rows "
                        f"of that label are {want}")
    return None


def analyze_pairs(kw, expected, pairs):
    """number of paired rows analyze(kw) selects (a pair is selected when either row matches every key)"""
    as_list = lambda v: list(v) if isinstance(v, (list, tuple)) else [v]
    n = 0
    for (i, gr, er) in pairs:
        keep = True
        for k, v in kw.items():
            if k == "distance":
                keep = keep and any(r is not None and v[0] <= r["distance"] < v[1] for r in (gr, er))
            else:
                keep = keep and any(r is not None and r[k] in as_list(v) for r in (gr, er))
        n += keep and gr is not None and er is not None
    return n


class C19(Prop):
    id = "C19"
    props_file = "Props/C19.v"
    # redundant tie (core.gen_tie): these functions, translated from the source on every run, equal the hand model for all inputs
    gen_tie_theorems = ['GenTie_StatusRate___init__', 'GenTie___get_rate', 'GenTie_rate', 'GenTie_GroundTruthStatus___init__', 'GenTie_add_status', 'GenTie_add_status_outside', 'GenTie_get_status_rates', 'GenTie_get_scene_rates', 'GenTie_get_area_idx', 'GenTie_get_area_idx_outside']
    design_ref = "DESIGN.md section 4, C19; section 5, F11"
    technique = ("Rocq proof (list-structural induction over frames and scenes; fold invariants for get_object_status; case analysis over the "
                 "comparisons of get_area_idx) about a Gallina model of the analyzer's table and summaries; in-Coq correspondence against the real "
                 "PerceptionAnalyzer3D on frame results produced by the real manager")
    level_text = ("36 theorems (Props/C19.v, closed under the global context), for ALL lists of scenes / frames with any mix of TP/FP/TN/FN items: the table is one "
                  "row pair per item in TP, FP, TN, FN order numbered consecutively; num_tp/fp/tn/fn equal the summed sizes of the pass/fail lists (also per "
                  "scene and under any keyword selection), num_estimation = sum(|TP|+|FP|); num_ground_truth = sum(|TP|+|FP with GT|+|TN|+|FN|) = critical ground "
                  "truths + FP pairs with an ordinary ground truth (so the documented equality is refuted by the F11 witness and holds exactly when no such pair "
                  "exists); errors are GT - estimate of the paired items (TP pairs, FP pairs with a GT), the yaw error of two yaws in [-pi, pi] lies in [-pi, pi] "
                  "and equals the difference or the difference -+ 2 pi; summarize() = mean / RMS^2 / std^2 (= mean square - mean^2 >= 0) / max|.| / min|.| (both "
                  "attained) and the ALL row of summarize_error on the built table is that summary of the paired differences; the ALL rates are in [0,1] for every "
                  "built table and every selection of its row pairs (also with the F11 overcount, also through analyze()); a label row is in [0,1] when TP pairs "
                  "carry equal labels and exceeds 1 on the F15 witness (statement refuted); the confusion matrix of any table is nc x nc, sums to the number of "
                  "paired rows, each entry is the count of (gt label, est label), None iff no paired row, error iff a label is not listed; generate_area_points is "
                  "defined exactly for 1/3/9 and, for ALL rational max_x, max_y and points, get_area_idx on its areas is the band function (index 0 | x band | "
                  "3 * y band + x band, band 0 = (max/3, max); strict inequalities; an index iff strictly inside that rectangle; never two areas, i.e. it never "
                  "raises; for max > 0 None exactly outside (-max, max) or on a grid line); get_object_status has one record per distinct ground-truth uuid in "
                  "first-appearance order whose TP/FP/TN/FN lists are the per-frame filters of the pass/fail lists and whose total is their per-frame "
                  "concatenation; with distinct frame numbers every record lists each frame at most once if and only if every frame's ground truths with a "
                  "status have distinct uuids (the unguarded statement is refuted by the F11 witness: FP and FN in the same frame).")
    level_note = ("Trusted: Coq kernel + vm_compute; pandas selections modelled as list filters and validated by the correspondence (every row, the counters "
                  "under label/scene/frame/area/status/uuid selections, error arrays, summaries, ratios, confusion matrix, analyze(), status tallies); facts "
                  "(ego-frame x/y/yaw) are read through the public TransformDict.transform and independently compared by the oracle with the generated "
                  "ego-frame poses (also under general 3-D ego rotations); RMS and std are compared squared; pi is the binary64 np.pi. Run-time oracle only "
                  "(not modelled): get_status_num, velocity columns, status / scene frame rates, clear() followed by add().")
    rule = ("witness + 5 regression inputs + random scenes: 1-2 scenes x 1-3 frames (8%: 3 scenes of 1 / 2 / 1 frames) x 0-7 GT (k/8 lattice, FP-labelled GT 12%), ego / map frame with random ego "
            "poses, 1/3/9 divisions over 3 configurations (100x100; 48x96 with objects exactly on and next to the grid lines; distance-filtered with "
            "objects outside every area), 4 critical filters x 3 pass/fail thresholds, 4 counter selections and 3 analyze() selections per case; "
            "every 4th case (map frame) under a GENERAL ego rotation (roll and pitch; rational points of S^3), so that ego-frame x / y / yaw cannot be had "
            "from plane shortcuts; a third of the cases in a 'clean' stream (close pairs with equal labels, strays with labels no ground truth has) "
            "that stays outside the F11 class, so that the ground-truth counters are judged; objects carry velocities (12% None); up to three scenes through one analyzer; ego-frame "
            "scenes place ground truths (and their estimates) at EXACT distances 5 / 10 / 20 / 60 m so that the bounds of analyze(distance) are "
            "hit with equality; besides the 3 model-compared analyze() selections, 2 oracle-only selections per case are chosen from the content (most frequent "
            "label x scene / frame / area / distance band cut at the median distance, last scene) so that paired rows of a selected label also exist "
            "OUTSIDE the selection (counted); cases are capped at 17 ground truths and dealt over the coqc shards by size; oracle: for EVERY analyze(selection) the ALL row and every label row of the rates (label rows when the selected pairs of "
            "that label carry equal labels) and of the error summaries equal those of the selected row pairs only, and analyze returns nothing "
            "exactly when no pair is selected; every 3rd "
            "analyzer is cleared and filled again before it is read; num_area_division left at its default; oracle-only: get_status_num (string "
            "and enum status, with selections) = get_num_*, vx / vy / speed rows and their errors (ego-frame cases), analyze(scene / frame) ALL rates "
            "from the selected counters, GroundTruthStatus.get_status_rates and get_scene_rates = tallied frames over total frames; "
            "non-trivial = at least 2 frames with at least one TP and one FP or FN")
    assumptions = ["pandas indexing semantics are modelled as list filters (validated on every run, not proved)",
                   "conservation of critical ground truths over the four lists (C03) is a hypothesis of the ground-truth-count theorems; it is checked in Coq on every real frame",
                   "per-label rates in [0,1] need TP pairs to carry equal labels (the ALL row needs nothing; without the guard: F15 refutation)",
                   "yaw wrap: both yaws in [-P, P] for the value P > 0 used as pi (binary64 np.pi in the correspondence)",
                   "areas: the model's generate_area_points computes np.arange exactly in Q (compared with the real arrays to 1e-9 on every run); the None-iff-on-a-grid-line clause assumes max_x, max_y > 0",
                   "once-per-frame equivalence: the frames of one get_object_status call have distinct frame numbers (needed for the 'if' direction only)"]
    not_proved = ["GMM / plotting / summarize_score (metrics are C04/C05)", "vx, vy, speed (checked by the run-time oracle only, ego-frame cases) and nn_plane error columns (nn_plane needs corner geometry)",
                  "binary64 rounding inside np.arange / the subtraction of yaws (tolerance 1e-9; +-pi ambiguity handled modulo 2 pi); on the real binary64 grid lines (neighbours of max/3) the area of a point within 1 ulp of a line is only validated",
                  "RMS and std themselves (square roots): the theorems are about their squares",
                  "per-label summarize_error rows are characterised only as the summary of the error pairs of the label's row pairs (definitional), not reduced to the frames' items",
                  "that distinct uuids among a frame's ground truths plus 'no FP pair with an ordinary ground truth' imply the once-per-frame guard (needs C03's description of the four lists; the guard itself is exact)",
                  "behaviour of queries on the initial empty DataFrame is modelled as an explicit error and only validated"]

    def correspondences(self):
        return [AnalyzerCorr()]

    # the oracle clauses 8/9 fire on F11: a ground truth paired with a failing estimate is the GT row of the FP pair and an FN row
    def known_match(self, finding, corr_name, case, obs, msg):
        if finding.get("id") == "F15":
            return corr_name == "analysis_table" and str(msg).startswith("F15-class: ") and mixed_label_tp(obs)
        if finding.get("id") != "F11" or corr_name != "analysis_table" or not str(msg).startswith("F11-class: "):
            return False
        return any(g is not None and not g["isfp"] and any(h["uuid"] == g["uuid"] for h in f["fn"])
                   for sc in obs.get("facts", []) for f in sc for _, g in f["fp"])

    def known_probe(self, finding):
        if finding.get("id") == "F15":
            obs = AnalyzerCorr().run_impl(WITNESS_F15)
            if not isinstance(obs.get("ratio"), dict) or "ok" not in obs["ratio"] or "unknown" not in obs["targets"]:
                return False
            row = obs["ratio"]["ok"][1 + obs["targets"].index("unknown")]
            return row[0] > 1.0
        if finding.get("id") != "F11":
            return False
        c = AnalyzerCorr()
        obs = c.run_impl(WITNESS)
        if "props" not in obs or "ok" not in obs["props"]:
            return False
        ncrit = sum(f["ncrit"] for sc in obs["facts"] for f in sc)
        twice = any(len(set(t)) != len(t) for sts in obs["status"] for _, t, *_ in sts)
        return ncrit == 3 and obs["props"]["ok"][0] == 4 and twice

    def cleanup(self):
        MC.cleanup_tmp(all_pids=True)


READY = True
PROP = C19()
