"""C14 -- label names convert totally, case-insensitively and consistently with merging."""
import json
import os
import string

from harness.lib import core
from harness.lib.core import Corr, Prop, slit

TASKS = ["detection", "tracking", "prediction", "sensing", "detection2d", "tracking2d", "classification2d",
         "fp_validation", "fp_validation2d"]
MERGE_DOC = {"TRUCK": "CAR", "BUS": "CAR", "MOTORBIKE": "BICYCLE"}


_GOLDEN = {}


def golden():
    """the pinned copy of the documented tables (corpus/C14/golden/label_tables.json: derived from the unchanged label.py and from
    docs/en/perception/label.md at the commit recorded in the file) -- the oracle's notion of 'its documented label', independent of the
    converter under test and of the regenerated Coq tables"""
    if not _GOLDEN:
        _GOLDEN.update(json.load(open(os.path.join(core.ROOT, "corpus", "C14", "golden", "label_tables.json"))))
    return _GOLDEN


def golden_key(family, merge, task):
    if family == "autoware":
        return "autoware/merge=" + ("true" if merge else "false")
    return "traffic_light/" + ("classification2d" if task == "classification2d" else "other")


def _conv(family, merge, task):
    from perception_eval.common.label import LabelConverter

    return LabelConverter(task, merge, family)


_COUNTING = {}


def _counting_conv(family, merge, task):
    """ONE converter per (family, merge, task) with count_label_number=True -- the setting both configuration classes default to -- kept
    for the whole run, so that every conversion goes through a converter that has already served many others"""
    from perception_eval.common.label import LabelConverter

    k = (family, merge, task)
    if k not in _COUNTING:
        _COUNTING[k] = LabelConverter(task, merge, family, True)
    return _COUNTING[k]


def variants(v, rng):
    out = {v, v.upper(), v.lower(), v.title(), v.swapcase()}
    out.add("".join(c.upper() if rng.random() < 0.5 else c.lower() for c in v))
    return out


# strings that are NOT registered names but would select one if a name were ever read as a pattern (regular expression, glob, prefix):
# the lookup is plain lower-cased equality, so every one of them is an unregistered name
PATTERN_NAMES = [".*", ".+", ".", "*", "?", "+", "|", "(", ")", "[", "]", "\\", "[a-z_.]+", "\\w+", "car|bus", "(car)", "c.r", "ca?r", "car?", "ca*r", "[c]ar", "^car$",
                 "car$", "^car", "(?i)car", "c[a-z]r", "car{1}", "red|green", "re.", "gree.", "^green", "unknown|", "|unknown", "%s", "{}", "car\n", "\ncar",
                 "car\t", " car", "car\r\n", "green\n", "vehicle\\.car", "vehicle[.]car", "vehicle?car", "vehicle*"]


def pattern_variants(name, rng):
    """near misses of ONE registered name built from pattern metacharacters and white space"""
    i = rng.randrange(len(name))
    return [name[:i] + "." + name[i + 1:], name[:i] + "?" + name[i + 1:], name + "?", name + "*", name + ".*", "(" + name + ")", name + "|zzz", "zzz|" + name,
            "^" + name + "$", name + "$", "[" + name[0] + "]" + name[1:], name + "\n", "\n" + name, name + "\t", name.replace(".", "\\."), name + "\\",
            name[:i] + "[" + name[i] + "]" + name[i + 1:], name.replace("_", "."), name.replace(" ", "\t"), name[: i + 1] + "*" + name[i + 1:]]


class LabelCorr(Corr):
    name = "convert"
    header = ("From Coq Require Import String List Bool.\nFrom PE Require Import Base.CaseUtil Base.StrUtil Gen.LabelTables Model.Label.\n"
              "Import ListNotations.\nOpen Scope string_scope.\nOpen Scope bool_scope.\n")
    requires = ["Model/Label.vo", "Base/CaseUtil.vo"]
    shard = 400

    def cases(self, tier, rng):
        from perception_eval.common.label import AutowareLabel, TrafficLightLabel

        out = []
        n_rand = 40 if tier == "quick" else 400
        tasks = TASKS
        alphabet = string.ascii_letters + string.digits + "_-. ()&"
        for family, enum in (("autoware", AutowareLabel), ("traffic_light", TrafficLightLabel)):
            for merge in (False, True):
                for task in tasks:
                    if family == "traffic_light" and merge:
                        continue
                    if tier == "quick" and task not in ("detection", "classification2d", "tracking2d", "fp_validation"):
                        continue
                    conv = _conv(family, merge, task)
                    names = set()
                    for li in conv.label_infos:
                        names |= variants(li.name, rng)
                        names |= {li.name + " ", li.name[:-1], li.name + "s", li.name.replace(".", "_")}
                    for m in enum:
                        names |= variants(m.value, rng)
                        names |= variants(m.name, rng)
                    # every name the documentation registers for the family in ANY (merge, task) table, whether or not the converter
                    # under test still holds it
                    for k, tbl in golden()["tables"].items():
                        if k.startswith(family):
                            names |= set(tbl)
                            for nm in rng.sample(sorted(tbl), 6):
                                names |= variants(nm, rng)
                    for k, tbl in golden()["docs"].items():
                        if k.startswith(family):
                            names |= set(tbl)
                    names |= {"", "zzz", "trailer", "Trailer", "cyclist", "vehicle", "pedestrian.", "none"}
                    # names holding pattern metacharacters / white space: the fixed list and 2 (thorough: 8) of 20 near misses of every
                    # registered name; a registered name itself may hold such characters ("vehicle.bus (bendy & rigid)"), which is why
                    # these are lookups by equality and nothing else
                    names |= set(PATTERN_NAMES)
                    for li in conv.label_infos:
                        pv_ = pattern_variants(li.name, rng)
                        names |= set(rng.sample(pv_, 8 if tier != "quick" else 2))
                    for _ in range(n_rand):
                        names.add("".join(rng.choice(alphabet) for _ in range(rng.randint(1, 14))))
                    for s in sorted(names):
                        out.append({"family": family, "merge": merge, "task": task, "name": s})
        return out

    def run_impl(self, case):
        from perception_eval.common.label import set_target_lists

        conv = _conv(case["family"], case["merge"], case["task"])
        s = case["name"]
        try:
            lab = conv.convert_label(s)
            r = {"label": lab.label.name, "kept_name": lab.name == s}
            nl = conv.convert_name(s)
            r["name_label"] = nl.name
            tl = set_target_lists([s, s.lower()], conv)
            r["target_list"] = [l.name for l in tl]
            # the object's label must be a member of the family's enum and the very member the target list holds (enum members of
            # different families can share a name, e.g. UNKNOWN)
            from perception_eval.common.label import AutowareLabel, TrafficLightLabel
            fam = AutowareLabel if case["family"] == "autoware" else TrafficLightLabel
            r["family_ok"] = bool(isinstance(lab.label, fam) and isinstance(nl, fam) and all(isinstance(l, fam) for l in tl))
            r["same_member_as_target"] = bool(lab.label is nl and lab.label is tl[0] and lab.label in tl)
            r["lower_label"] = conv.convert_label(s.lower()).label.name
            if case["family"] == "autoware":
                r["nomerge_label"] = _conv("autoware", False, case["task"]).convert_label(s).label.name
            r["registered"] = [li.label.name for li in conv.label_infos if li.name == s.lower()]
            r["canonical_value"] = lab.label.value
            r["canonical_roundtrip"] = conv.convert_label(lab.label.value).label.name
            # the all-labels branch of the target list (None / empty list = every member of the family's enum)
            r["all_labels"] = [[l.name for l in set_target_lists(None, conv)], [l.name for l in set_target_lists([], conv)]]
            r["all_labels_family_ok"] = bool(all(isinstance(l, fam) for l in set_target_lists(None, conv) + set_target_lists([], conv)))
            # the task given as the enum member (what the configuration classes pass) instead of its string
            from perception_eval.common.evaluation_task import EvaluationTask
            from perception_eval.common.label import LabelConverter
            ce = LabelConverter(EvaluationTask.from_value(case["task"]), case["merge"], case["family"])
            r["enum_task"] = [ce.convert_label(s).label.name, ce.convert_name(s).name, [[li.name, li.label.name] for li in ce.label_infos]
                              == [[li.name, li.label.name] for li in conv.label_infos]]
            # the production setting count_label_number=True on a long-lived converter: same answers, table untouched, one count per hit
            cc = _counting_conv(case["family"], case["merge"], case["task"])
            tbl0 = [[li.name, li.label.name] for li in conv.label_infos]
            n0 = [li.num for li in cc.label_infos]
            l1 = cc.convert_label(s)
            n1 = [li.num for li in cc.label_infos]
            l2 = cc.convert_name(s)
            n2 = [li.num for li in cc.label_infos]
            l3 = set_target_lists([s.upper()], cc)
            r["counting"] = {"labels": [l1.label.name, l2.name, l3[0].name], "kept_name": l1.name == s,
                             "family_ok": bool(isinstance(l1.label, fam) and isinstance(l2, fam) and isinstance(l3[0], fam)),
                             "table_ok": [[li.name, li.label.name] for li in cc.label_infos] == tbl0,
                             "hits": [[[cc.label_infos[i].name, b - a] for i, (a, b) in enumerate(zip(x, y)) if a != b] for x, y in ((n0, n1), (n1, n2))],
                             "no_count_nums": [li.num for li in conv.label_infos if li.num != 0]}
        except Exception as e:
            return {"error": f"{type(e).__name__}: {e}"}
        return r

    def _tbl(self, case, merge=None):
        fam = "Autoware" if case["family"] == "autoware" else "TrafficLight"
        m = case["merge"] if merge is None else merge
        return f'(table_of {fam} {"true" if m else "false"} {slit(case["task"].upper())})'

    def coq_term(self, case, obs):
        if "error" in obs:
            return "false"
        s = slit(case["name"])
        t = self._tbl(case)
        parts = [
            f'String.eqb (convert_label {t} {s}) {slit(obs["label"])}',
            f'String.eqb (convert_name {t} {s}) {slit(obs["name_label"])}',
            f'String.eqb (convert_name {t} (lower {s})) {slit(obs["target_list"][1])}',
        ]
        if "nomerge_label" in obs:
            parts.append(f'String.eqb (convert_label {self._tbl(case, False)} {s}) {slit(obs["nomerge_label"])}')
        return "(" + " && ".join(parts) + ")"

    def coq_debug(self, case, obs):
        return f'(convert_label {self._tbl(case)} {slit(case["name"])}, convert_name {self._tbl(case)} {slit(case["name"])})'

    def oracle(self, case, obs):
        s = case["name"]
        if "error" in obs:
            return f"converting {s!r} failed: {obs['error']}"
        if not obs["family_ok"]:
            return f"{s!r} converts to a label that is not a member of the {case['family']} label enum (label {obs['label']})"
        if not obs["same_member_as_target"]:
            return f"the label objects get for {s!r} ({obs['label']}) is not the member the target list resolves {s!r} to"
        if obs["label"] != obs["lower_label"]:
            return f"letter case matters: {s!r} -> {obs['label']} but {s.lower()!r} -> {obs['lower_label']}"
        if obs["name_label"] != obs["label"] or obs["target_list"][0] != obs["label"]:
            return f"target-list resolution of {s!r} gives {obs['name_label']}/{obs['target_list']} but objects get {obs['label']}"
        G = golden()
        gk = golden_key(case["family"], case["merge"], case["task"])
        for src in ("tables", "docs"):
            want = G[src].get(gk, {}).get(s.lower())
            if want is not None and obs["label"] != want:
                where = "common/label.py" if src == "tables" else "docs/en/perception/label.md"
                return (f"{s!r} converts to {obs['label']} but its documented label is {want} (pinned table {gk} of {where}, "
                        f"corpus/C14/golden/label_tables.json)")
        enum_keys = [k for k, _ in G["enums"][case["family"]]]
        if obs["label"] not in enum_keys:
            return f"{s!r} converts to {obs['label']}, which is not a member of the documented {case['family']} label enum"
        if "all_labels" in obs:
            for arg, got in zip(("None", "[]"), obs["all_labels"]):
                if got != enum_keys or not obs["all_labels_family_ok"]:
                    return f"set_target_lists({arg}, converter) gives {got} instead of every member of the {case['family']} label enum {enum_keys}"
        if "enum_task" in obs and (obs["enum_task"][0] != obs["label"] or obs["enum_task"][1] != obs["label"] or not obs["enum_task"][2]):
            return (f"LabelConverter given the task as an EvaluationTask member converts {s!r} to {obs['enum_task'][:2]}, given the string "
                    f"{case['task']!r} to {obs['label']}" + ("" if obs["enum_task"][2] else "; the two converters hold different (name, label) tables"))
        if "counting" in obs:
            c = obs["counting"]
            if c["labels"] != [obs["label"]] * 3 or not c["family_ok"] or not c["kept_name"]:
                return (f"a long-lived converter with count_label_number=True converts {s!r} to {c['labels']} (convert_label, convert_name, "
                        f"target list) but a fresh converter without counting to {obs['label']}")
            if not c["table_ok"]:
                return "converting with count_label_number=True changed the converter's (name, label) table"
            want_hit = [[s.lower(), 1]] if s.lower() in G["tables"][gk] or obs["registered"] else []
            for which, hit in zip(("convert_label", "convert_name"), c["hits"]):
                if hit != want_hit:
                    return f"{which}({s!r}) with count_label_number=True changed the counters by {hit}, expected {want_hit} (one count on the matched row)"
            if c["no_count_nums"]:
                return "a converter with count_label_number=False counted conversions"
        if obs["registered"] and obs["label"] not in obs["registered"]:
            return f"{s!r} is registered for {obs['registered']} but converts to {obs['label']}"
        if len(set(obs["registered"])) > 1:
            return f"{s!r} is registered for several labels {obs['registered']}"
        if not obs["registered"] and obs["label"] != "UNKNOWN":
            return f"unregistered name {s!r} converts to {obs['label']} instead of UNKNOWN"
        if obs["canonical_roundtrip"] != obs["label"]:
            return (f"label {obs['label']} (produced for {s!r}) is not the image of its own canonical name "
                    f"{obs['canonical_value']!r}, which converts to {obs['canonical_roundtrip']}")
        if case["family"] == "autoware" and case["merge"]:
            want = MERGE_DOC.get(obs["nomerge_label"], obs["nomerge_label"])
            if obs["label"] != want:
                return f"merge inconsistency: {s!r} -> {obs['label']} with merging but {obs['nomerge_label']} without (expected {want})"
        if not obs["kept_name"]:
            return "Label.name does not keep the original name"
        return None

    def nontrivial(self, case, obs):
        return bool(obs.get("registered")) or case["name"].lower() != case["name"]

    def distribution(self, cases, obs):
        d = {"registered": 0, "unregistered": 0, "with_upper_case": 0, "names_with_a_pinned_documented_label": 0,
             "names_with_pattern_metacharacters": sum(1 for c in cases if any(ch in c["name"] for ch in "*?+|()[]^$\\{}")),
             "names_with_newline_or_tab": sum(1 for c in cases if any(ch in c["name"] for ch in "\n\t\r")),
             "names_in_the_docs_tables": 0, "conversions_through_a_long_lived_counting_converter": 0, "counted_hits": 0}
        labs = {}
        G = golden()
        for c, o in zip(cases, obs):
            gk = golden_key(c["family"], c["merge"], c["task"])
            d["names_with_a_pinned_documented_label"] += c["name"].lower() in G["tables"][gk]
            d["names_in_the_docs_tables"] += c["name"].lower() in G["docs"].get(gk, {})
            if "counting" in o:
                d["conversions_through_a_long_lived_counting_converter"] += 3
                d["counted_hits"] += sum(len(h) for h in o["counting"]["hits"])
            d["registered" if o.get("registered") else "unregistered"] += 1
            if c["name"].lower() != c["name"]:
                d["with_upper_case"] += 1
            labs[o.get("label")] = labs.get(o.get("label"), 0) + 1
        d["labels"] = labs
        return d


TMP_ROOT = os.path.join(core.BUILD, "C14_tmp")


def config_dict(task, family, merge, targets):
    cfg = {"evaluation_task": task, "target_labels": targets, "label_prefix": family, "merge_similar_labels": merge}
    if task in ("detection", "tracking"):
        cfg.update({"max_x_position": 100.0, "max_y_position": 100.0, "center_distance_thresholds": [1.0], "plane_distance_thresholds": [2.0],
                    "iou_2d_thresholds": [0.5], "iou_3d_thresholds": [0.5], "min_point_numbers": 0})
    elif task in ("detection2d", "tracking2d"):
        cfg.update({"center_distance_thresholds": [100.0], "iou_2d_thresholds": [0.5]})
    return cfg


class TargetCorr(Corr):
    """the third entry point of the property: PerceptionEvaluationConfig(...).target_labels (the configuration builds its own
    LabelConverter from label_prefix / merge_similar_labels / the task MEMBER, with count_label_number defaulting to True)"""
    name = "config_target_labels"
    header = LabelCorr.header
    requires = LabelCorr.requires
    shard = 100

    def cases(self, tier, rng):
        out = []
        G = golden()
        per = 3 if tier == "quick" else 25
        cells = [("autoware", m, t) for m in (False, True) for t in ("detection", "tracking", "detection2d", "classification2d")]
        cells += [("traffic_light", m, t) for m in (False, True) for t in ("classification2d", "detection2d", "tracking2d")]
        for family, merge, task in cells:
            tbl = G["tables"][golden_key(family, merge, task)]
            pool = sorted(tbl) + [v for _, v in G["enums"][family]]
            for k in range(per):
                names = [rng.choice(pool) for _ in range(rng.randint(1, 5))]
                if k % 3 == 1:
                    names.append(rng.choice(["zzz", "trailer ", "Cyclist", "vehicle"]))        # unregistered -> UNKNOWN, position kept
                if k % 3 == 2:
                    names.append(names[0])                                                     # a repeated name stays repeated
                names = ["".join(c.upper() if rng.random() < 0.4 else c for c in n) for n in names]
                out.append({"family": family, "merge": merge, "task": task, "names": names})
            out.append({"family": family, "merge": merge, "task": task, "names": None})         # all labels
        return out

    def run_impl(self, case):
        from perception_eval.common.label import AutowareLabel, TrafficLightLabel
        from perception_eval.config import PerceptionEvaluationConfig

        frame = "base_link" if case["task"] in ("detection", "tracking") else "cam_front"
        cfg = config_dict(case["task"], case["family"], case["merge"], None if case["names"] is None else list(case["names"]))
        try:
            c = PerceptionEvaluationConfig(["/nonexistent"], frame, os.path.join(TMP_ROOT, f"r{os.getpid()}"), cfg, load_raw_data=False)
        except Exception as e:  # noqa: BLE001
            return {"error": f"{type(e).__name__}: {e}"}
        fam = AutowareLabel if case["family"] == "autoware" else TrafficLightLabel
        names = case["names"] or []
        objs = [c.label_converter.convert_label(n) for n in names]
        return {"targets": [l.name for l in c.target_labels], "family_ok": bool(all(isinstance(l, fam) for l in c.target_labels)),
                "object_labels": [o.label.name for o in objs],
                "same_members": bool(all(o.label is t for o, t in zip(objs, c.target_labels))) if names else True,
                "filter_targets": [l.name for l in c.filtering_params["target_labels"]],
                "metrics_targets": [l.name for l in c.metrics_params["target_labels"]],
                "names_given_unchanged": cfg["target_labels"] == case["names"]}

    def _tbl(self, case):
        fam = "Autoware" if case["family"] == "autoware" else "TrafficLight"
        return f'(table_of {fam} {"true" if case["merge"] else "false"} {slit(case["task"].upper())})'

    def coq_term(self, case, obs):
        if "error" in obs:
            return "false"
        if case["names"] is None:
            return "true"
        if len(obs["targets"]) != len(case["names"]):
            return "false"
        t = self._tbl(case)
        return "(" + " && ".join(f"String.eqb (convert_name {t} {slit(n)}) {slit(l)}" for n, l in zip(case["names"], obs["targets"])) + ")"

    def oracle(self, case, obs):
        if "error" in obs:
            return f"a configuration with target labels {case['names']} was rejected: {obs['error']}"
        G = golden()
        enum_keys = [k for k, _ in G["enums"][case["family"]]]
        if not obs["family_ok"]:
            return f"the configuration's target labels are not members of the {case['family']} label enum"
        if obs["filter_targets"] != obs["targets"] or obs["metrics_targets"] != obs["targets"]:
            return f"the filter / metric parameters hold other target labels ({obs['filter_targets']} / {obs['metrics_targets']}) than the configuration ({obs['targets']})"
        if case["names"] is None:
            return None if obs["targets"] == enum_keys else f"without target names the configuration holds {obs['targets']} instead of every member {enum_keys}"
        tbl = G["tables"][golden_key(case["family"], case["merge"], case["task"])]
        want = [tbl.get(n.lower(), "UNKNOWN") for n in case["names"]]
        if obs["targets"] != want:
            return (f"PerceptionEvaluationConfig(label_prefix={case['family']!r}, merge_similar_labels={case['merge']}, task={case['task']!r})"
                    f".target_labels for {case['names']} is {obs['targets']} but the documented labels are {want} (in the order given)")
        if obs["object_labels"] != obs["targets"] or not obs["same_members"]:
            return f"objects converted by the configuration's converter get {obs['object_labels']} but its target list holds {obs['targets']}"
        if not obs["names_given_unchanged"]:
            return "the caller's target-name list was modified"
        return None

    def nontrivial(self, case, obs):
        return bool(case["names"]) and len(set(obs.get("targets", []))) >= 2

    def distribution(self, cases, obs):
        d = {"cells": len({(c["family"], c["merge"], c["task"]) for c in cases}), "all_labels_requests": sum(c["names"] is None for c in cases),
             "names": sum(len(c["names"] or []) for c in cases), "resolved_to_unknown": sum(o.get("targets", []).count("UNKNOWN") for o in obs)}
        return d


class C14(Prop):
    id = "C14"
    props_file = "Props/C14.v"
    # redundant tie (core.gen_tie): these functions, translated from the source on every run, equal the hand model for all inputs
    gen_tie_theorems = ['GenTie_convert_label', 'GenTie_convert_name']
    gen_files = ["LabelTables.v"]
    design_ref = "DESIGN.md section 4, C14"
    technique = "Rocq proof over label tables regenerated from common/label.py by a Python-ast translator; in-Coq correspondence on all registered names x case variants"
    level_text = ("Theorems (Props/C14.v, closed under the global context) hold for ALL strings: conversion is total into the label enum, ignores letter "
                  "case, maps every registered name to its table label, fixes every producible label's canonical name, sends unregistered names to "
                  "UNKNOWN, resolves target lists like object labels, and merged = merge_map(unmerged). Tables and the lookup-loop shapes are "
                  "regenerated from the source each run; convert_label/convert_name/set_target_lists are compared with the model on every "
                  "registered name x 6 case variants x near misses x random strings for every family/merge/task. The oracle's 'documented "
                  "label' is a pinned copy of the tables (source + docs), not the converter's own table; counting converters, enum-typed tasks, "
                  "the all-labels target list and the PerceptionEvaluationConfig.target_labels entry point are driven as well.")
    level_note = ("Trusted: Coq kernel+vm_compute; translator/py_to_coq.py; ASCII-only lower() (Python's non-ASCII case folding, e.g. U+212A, is "
                  "outside the model); labels identified by enum key. 'documented label' = the table in label.py as pinned in "
                  "corpus/C14/golden/label_tables.json (unchanged source at the recorded commit) and the rows of docs/en/perception/label.md "
                  "that the source does not contradict (4 stale traffic-light rows are listed in the file and not used).")
    rule = ("per (family, merge, task): every registered name, enum value and enum key in 6 case variants + near misses + random ASCII strings; "
            "names read as PATTERNS: a fixed list of 45 strings made of regular-expression / glob metacharacters and white space ('.*', 'c.r', "
            "'car|bus', '^car$', 'car\\n', '(', '\\\\' ...) and 2 (thorough: 8) of 20 pattern near misses of every registered name (one character "
            "replaced by '.', '?', '[x]'; '*', '$', '|zzz', a newline / tab / backslash appended; '_' -> '.'), every one of them an "
            "unregistered name for all three entry points (convert_label, convert_name, set_target_lists are compared on EVERY name); "
            "non-trivial = registered name or contains upper-case letters; plus every name of the PINNED documented tables of the family "
            "(corpus/C14/golden/label_tables.json: a copy of the tables of common/label.py and of docs/en/perception/label.md at a recorded "
            "commit) whatever the converter under test registers, and the oracle demands label == pinned label for each of them; every name "
            "is also converted through ONE long-lived converter per (family, merge, task) built with count_label_number=True (same labels "
            "as a fresh non-counting converter, (name, label) table untouched, exactly one count on the matched row per convert_label / "
            "convert_name), through a converter built with the task as an EvaluationTask member, and set_target_lists(None / []) must give "
            "every member of the pinned enum; second correspondence: PerceptionEvaluationConfig(...).target_labels for both families x merge "
            "on/off x 3-4 tasks with mixed-case / unregistered / repeated target names and with no names, compared elementwise (order kept) "
            "with the pinned tables, with the labels objects get from the configuration's own converter and with the filter / metric parameter copies")
    assumptions = ["ASCII-only model of str.lower()", "translator validated by this run's correspondence"]
    not_proved = ["non-ASCII case folding", "Label objects' attribute handling (only .label and .name observed)"]

    def correspondences(self):
        return [LabelCorr(), TargetCorr()]

    def cleanup(self):
        import shutil

        shutil.rmtree(TMP_ROOT, ignore_errors=True)


READY = True
PROP = C14()
