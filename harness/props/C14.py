"""C14 -- label names convert totally, case-insensitively and consistently with merging."""
import string

from harness.lib.core import Corr, Prop, slit

TASKS = ["detection", "tracking", "prediction", "sensing", "detection2d", "tracking2d", "classification2d",
         "fp_validation", "fp_validation2d"]
MERGE_DOC = {"TRUCK": "CAR", "BUS": "CAR", "MOTORBIKE": "BICYCLE"}


def _conv(family, merge, task):
    from perception_eval.common.label import LabelConverter

    return LabelConverter(task, merge, family)


def variants(v, rng):
    out = {v, v.upper(), v.lower(), v.title(), v.swapcase()}
    out.add("".join(c.upper() if rng.random() < 0.5 else c.lower() for c in v))
    return out


class LabelCorr(Corr):
    name = "convert"
    header = ("From Coq Require Import String List Bool.\nFrom PE Require Import Base.CaseUtil Base.StrUtil Gen.LabelTables Model.Label.\n"
              "Import ListNotations.\nOpen Scope string_scope.\nOpen Scope bool_scope.\n")
    requires = ["Model/Label.vo", "Base/CaseUtil.vo"]
    shard = 400

    def cases(self, tier, rng):
        from perception_eval.common.label import AutowareLabel, TrafficLightLabel

        out = []
        n_rand = 40 if tier == "quick" else 400
        tasks = TASKS
        alphabet = string.ascii_letters + string.digits + "_-. ()&"
        for family, enum in (("autoware", AutowareLabel), ("traffic_light", TrafficLightLabel)):
            for merge in (False, True):
                for task in tasks:
                    if family == "traffic_light" and merge:
                        continue
                    if tier == "quick" and task not in ("detection", "classification2d", "tracking2d", "fp_validation"):
                        continue
                    conv = _conv(family, merge, task)
                    names = set()
                    for li in conv.label_infos:
                        names |= variants(li.name, rng)
                        names |= {li.name + " ", li.name[:-1], li.name + "s", li.name.replace(".", "_")}
                    for m in enum:
                        names |= variants(m.value, rng)
                        names |= variants(m.name, rng)
                    names |= {"", "zzz", "trailer", "Trailer", "cyclist", "vehicle", "pedestrian.", "none"}
                    for _ in range(n_rand):
                        names.add("".join(rng.choice(alphabet) for _ in range(rng.randint(1, 14))))
                    for s in sorted(names):
                        out.append({"family": family, "merge": merge, "task": task, "name": s})
        return out

    def run_impl(self, case):
        from perception_eval.common.label import set_target_lists

        conv = _conv(case["family"], case["merge"], case["task"])
        s = case["name"]
        try:
            lab = conv.convert_label(s)
            r = {"label": lab.label.name, "kept_name": lab.name == s}
            nl = conv.convert_name(s)
            r["name_label"] = nl.name
            tl = set_target_lists([s, s.lower()], conv)
            r["target_list"] = [l.name for l in tl]
            # the object's label must be a member of the family's enum and the very member the target list holds (enum members of
            # different families can share a name, e.g. UNKNOWN)
            from perception_eval.common.label import AutowareLabel, TrafficLightLabel
            fam = AutowareLabel if case["family"] == "autoware" else TrafficLightLabel
            r["family_ok"] = bool(isinstance(lab.label, fam) and isinstance(nl, fam) and all(isinstance(l, fam) for l in tl))
            r["same_member_as_target"] = bool(lab.label is nl and lab.label is tl[0] and lab.label in tl)
            r["lower_label"] = conv.convert_label(s.lower()).label.name
            if case["family"] == "autoware":
                r["nomerge_label"] = _conv("autoware", False, case["task"]).convert_label(s).label.name
            r["registered"] = [li.label.name for li in conv.label_infos if li.name == s.lower()]
            r["canonical_value"] = lab.label.value
            r["canonical_roundtrip"] = conv.convert_label(lab.label.value).label.name
        except Exception as e:
            return {"error": f"{type(e).__name__}: {e}"}
        return r

    def _tbl(self, case, merge=None):
        fam = "Autoware" if case["family"] == "autoware" else "TrafficLight"
        m = case["merge"] if merge is None else merge
        return f'(table_of {fam} {"true" if m else "false"} {slit(case["task"].upper())})'

    def coq_term(self, case, obs):
        if "error" in obs:
            return "false"
        s = slit(case["name"])
        t = self._tbl(case)
        parts = [
            f'String.eqb (convert_label {t} {s}) {slit(obs["label"])}',
            f'String.eqb (convert_name {t} {s}) {slit(obs["name_label"])}',
            f'String.eqb (convert_name {t} (lower {s})) {slit(obs["target_list"][1])}',
        ]
        if "nomerge_label" in obs:
            parts.append(f'String.eqb (convert_label {self._tbl(case, False)} {s}) {slit(obs["nomerge_label"])}')
        return "(" + " && ".join(parts) + ")"

    def coq_debug(self, case, obs):
        return f'(convert_label {self._tbl(case)} {slit(case["name"])}, convert_name {self._tbl(case)} {slit(case["name"])})'

    def oracle(self, case, obs):
        s = case["name"]
        if "error" in obs:
            return f"converting {s!r} failed: {obs['error']}"
        if not obs["family_ok"]:
            return f"{s!r} converts to a label that is not a member of the {case['family']} label enum (label {obs['label']})"
        if not obs["same_member_as_target"]:
            return f"the label objects get for {s!r} ({obs['label']}) is not the member the target list resolves {s!r} to"
        if obs["label"] != obs["lower_label"]:
            return f"letter case matters: {s!r} -> {obs['label']} but {s.lower()!r} -> {obs['lower_label']}"
        if obs["name_label"] != obs["label"] or obs["target_list"][0] != obs["label"]:
            return f"target-list resolution of {s!r} gives {obs['name_label']}/{obs['target_list']} but objects get {obs['label']}"
        if obs["registered"] and obs["label"] not in obs["registered"]:
            return f"{s!r} is registered for {obs['registered']} but converts to {obs['label']}"
        if len(set(obs["registered"])) > 1:
            return f"{s!r} is registered for several labels {obs['registered']}"
        if not obs["registered"] and obs["label"] != "UNKNOWN":
            return f"unregistered name {s!r} converts to {obs['label']} instead of UNKNOWN"
        if obs["canonical_roundtrip"] != obs["label"]:
            return (f"label {obs['label']} (produced for {s!r}) is not the image of its own canonical name "
                    f"{obs['canonical_value']!r}, which converts to {obs['canonical_roundtrip']}")
        if case["family"] == "autoware" and case["merge"]:
            want = MERGE_DOC.get(obs["nomerge_label"], obs["nomerge_label"])
            if obs["label"] != want:
                return f"merge inconsistency: {s!r} -> {obs['label']} with merging but {obs['nomerge_label']} without (expected {want})"
        if not obs["kept_name"]:
            return "Label.name does not keep the original name"
        return None

    def nontrivial(self, case, obs):
        return bool(obs.get("registered")) or case["name"].lower() != case["name"]

    def distribution(self, cases, obs):
        d = {"registered": 0, "unregistered": 0, "with_upper_case": 0}
        labs = {}
        for c, o in zip(cases, obs):
            d["registered" if o.get("registered") else "unregistered"] += 1
            if c["name"].lower() != c["name"]:
                d["with_upper_case"] += 1
            labs[o.get("label")] = labs.get(o.get("label"), 0) + 1
        d["labels"] = labs
        return d


class C14(Prop):
    id = "C14"
    props_file = "Props/C14.v"
    gen_files = ["LabelTables.v"]
    design_ref = "DESIGN.md section 4, C14"
    technique = "Rocq proof over label tables regenerated from common/label.py by a Python-ast translator; in-Coq correspondence on all registered names x case variants"
    level_text = ("Theorems (Props/C14.v, closed under the global context) hold for ALL strings: conversion is total into the label enum, ignores letter "
                  "case, maps every registered name to its table label, fixes every producible label's canonical name, sends unregistered names to "
                  "UNKNOWN, resolves target lists like object labels, and merged = merge_map(unmerged). Tables and the lookup-loop shapes are "
                  "regenerated from the source each run; convert_label/convert_name/set_target_lists are compared with the model on every "
                  "registered name x 6 case variants x near misses x random strings for every family/merge/task.")
    level_note = ("Trusted: Coq kernel+vm_compute; translator/py_to_coq.py; ASCII-only lower() (Python's non-ASCII case folding, e.g. U+212A, is "
                  "outside the model); labels identified by enum key. 'documented label' = the table in label.py.")
    rule = ("per (family, merge, task): every registered name, enum value and enum key in 6 case variants + near misses + random ASCII strings; "
            "non-trivial = registered name or contains upper-case letters")
    assumptions = ["ASCII-only model of str.lower()", "translator validated by this run's correspondence"]
    not_proved = ["non-ASCII case folding", "Label objects' attribute handling (only .label and .name observed)"]

    def correspondences(self):
        return [LabelCorr()]


READY = True
PROP = C14()
