"""C02 -- matching prefers label-compatible pairs, then best score (no blocking pair).

Shares the generator, the implementation driver and the in-Coq correspondence with C01; uses the
"contested" generator flavour (few labels, tight clusters: contested ground truths, closer but
incompatible candidates, unknown-labelled estimates, FP-labelled ground truth) and its own oracle:
an independent two-stage greedy plus the blocking-pair predicate, both computed in Python from the
matching values / label policy read through the public API."""
from harness.lib.core import Prop
from harness.props.C01 import ManagerCorr, MatchCorr, expected_live, helpers_vs_documentation


def expected_label_ok(case, el, gl):
    """Documented label policy on label names (el: estimate, gl: ground truth)."""
    if gl == "FP" or case["policy"] == "ALLOW_ANY":
        return True
    if case["policy"] == "ALLOW_UNKNOWN":
        return el == gl or el == "UNKNOWN"
    return el == gl


def independent_greedy(n, m, live, ok, val, maximize):
    """Two-stage greedy written differently from the implementation: sort all candidates once per
    stage by score and sweep, taking a candidate iff both members are still free."""
    used_e, used_g, out = set(), set(), []
    for stage in (1, 2):
        cands = [(val[e][g], e, g) for e in range(n) for g in range(m)
                 if live[e][g] and (ok[e][g] or stage == 2) and e not in used_e and g not in used_g]
        cands.sort(key=lambda t: t[0], reverse=maximize)
        for _, e, g in cands:
            if e not in used_e and g not in used_g:
                used_e.add(e)
                used_g.add(g)
                out.append((e, g))
    return out


def oracle_c02(case, obs):
    if "__harness_exception__" in obs:
        return f"the implementation could not be observed: {obs['__harness_exception__']}"
    if "error" in obs:
        return f"get_object_results raised {obs['error']}"
    if obs["foreign"]:
        return "a result refers to an object that is not in the input lists"
    f = obs["facts"]
    n, m = len(f["est_frame"]), len(f["gt_frame"])
    if "via" not in case and (f["est_label"] != [o["label"] for o in case["est"]] or f["gt_label"] != [o["label"] for o in case["gt"]]):
        return "objects do not carry the labels they were built with"
    maximize = case["mode"].startswith("IOU")          # documented: distances minimised, IoU maximised
    # "matchable" is decided HERE (frames and labels the objects were built with, the radius at the index of the ground truth's label,
    # strict comparison in the direction of the mode), not by the helpers the matcher itself calls: a pair those helpers wrongly declare
    # unmatchable must still show up as a blocking pair
    msg = helpers_vs_documentation(case, obs)
    if msg:
        return msg
    live, _ = expected_live(case, obs)
    ok, val = obs["ok"], f["value"]
    # label policy truth table
    for e in range(n):
        for g in range(m):
            if bool(ok[e][g]) != expected_label_ok(case, f["est_label"][e], f["gt_label"][g]):
                return (f"is_matchable({case['policy']}) says {ok[e][g]} for estimate label {f['est_label'][e]} / "
                        f"ground truth label {f['gt_label'][g]}")
    pairs = [(e, g) for e, g in obs["pairs"] if g is not None]
    pe, pg = {}, {}
    for e, g in pairs:
        if e in pe or g in pg:
            return f"object matched twice (estimate {e} / ground truth {g})"
        pe[e], pg[g] = g, e
        if not live[e][g]:
            return f"estimate {e} and ground truth {g} are matched although the pair is not matchable (frame / radius)"

    def good(a, b):
        return a >= b if maximize else a <= b

    for e in range(n):
        for g in range(m):
            if not live[e][g] or pe.get(e) == g:
                continue
            s = val[e][g]
            if ok[e][g]:
                c1 = e in pe and ok[e][pe[e]] and good(val[e][pe[e]], s)
                c2 = g in pg and ok[pg[g]][g] and good(val[pg[g]][g], s)
                if not (c1 or c2):
                    return (f"blocking pair: estimate {e} and ground truth {g} are label-compatible and matchable (score {s}) but "
                            f"estimate {e} -> {pe.get(e)} and ground truth {g} <- {pg.get(g)}; neither is matched compatibly to a "
                            f"partner scoring at least as well")
            else:
                c1 = e in pe and (ok[e][pe[e]] or good(val[e][pe[e]], s))
                c2 = g in pg and (ok[pg[g]][g] or good(val[pg[g]][g], s))
                if not (c1 or c2):
                    return (f"blocking pair: estimate {e} and ground truth {g} are matchable (incompatible labels, score {s}) but "
                            f"estimate {e} -> {pe.get(e)} and ground truth {g} <- {pg.get(g)}; neither is matched compatibly or to a "
                            f"partner scoring at least as well")
    vals = [val[e][g] for e in range(n) for g in range(m) if live[e][g]]
    if len(set(vals)) == len(vals):
        exp = independent_greedy(n, m, live, ok, val, maximize)
        if set(exp) != set(pairs):
            return (f"no two candidate scores tie, but the pairs {sorted(pairs)} differ from the two-stage greedy assignment "
                    f"{sorted(exp)}")
    return None


def _contested(obs):
    f, live = obs["facts"], obs["live"]
    return any(sum(1 for i in range(len(f["est_frame"])) if live[i][j]) >= 2 for j in range(len(f["gt_frame"])))


class GreedyManagerCorr(ManagerCorr):
    """The manager passes its configured label policy / radii on to the matcher."""
    name = "manager_add_frame_result_greedy"

    def oracle(self, case, obs):
        return oracle_c02(case, obs)

    def nontrivial(self, case, obs):
        return "error" not in obs and _contested(obs) and any(g is not None for _, g in obs["pairs"])


class GreedyCorr(MatchCorr):
    name = "get_object_results_greedy"
    flavor = "contested"

    def oracle(self, case, obs):
        return oracle_c02(case, obs)

    def nontrivial(self, case, obs):
        if "error" in obs:
            return False
        return _contested(obs) and any(g is not None for _, g in obs["pairs"])

    def distribution(self, cases, obs):
        d = super().distribution(cases, obs)
        no_tie, stage2 = 0, 0
        for c, o in zip(cases, obs):
            if "error" in o:
                continue
            f = o["facts"]
            vals = [f["value"][e][g] for e in range(len(f["est_frame"])) for g in range(len(f["gt_frame"])) if o["live"][e][g]]
            if vals and len(set(vals)) == len(vals):
                no_tie += 1
            stage2 += sum(1 for e, g in o["pairs"] if g is not None and not o["ok"][e][g])
        d["scenes_without_ties_checked_against_independent_greedy"] = no_tie
        d["stage2_pairs"] = stage2
        return d


class C02(Prop):
    id = "C02"
    props_file = "Props/C02.v"
    # redundant tie (core.gen_tie): these decision functions, translated from the source on every run, equal the hand model for all inputs
    gen_tie_theorems = ['GenTie_is_matchable', 'GenTie_is_label_correct', 'GenTie__get_matching_module', 'GenTie__get_fp_object_results', 'GenTie__get_score_table', 'GenTie_best_cell', 'GenTie_get_object_results', 'GenTie_get_object_results_outside', 'GenTie_get_object_results_facts']
    gen_files = []
    design_ref = "DESIGN.md section 4, C02"
    technique = ("Coq proof by refinement: the executable model of the two matching loops (row-major first-best arg-min/arg-max with "
                 "deletion) is shown to be a run of a declarative, tie-agnostic two-stage greedy relation, to leave no blocking pair in "
                 "either stage, and that relation is shown deterministic when candidate scores are pairwise distinct; tied to "
                 "get_object_results by the in-Coq correspondence shared with C01")
    level_text = ("Theorems (Props/C02.v, closed under the global context) hold for ALL table sizes and ALL score / compatibility tables, for "
                  "minimisation and maximisation: stage 1 forms only compatible matchable pairs and stage 2 only incompatible ones; every "
                  "matchable compatible pair not matched together has a member matched compatibly to a partner scoring at least as well; "
                  "every matchable pair not matched together has a member matched in stage 1 or matched in stage 2 to a partner scoring at "
                  "least as well; stage 1 leaves no compatible matchable pair among the unmatched; the model is a run of the documented "
                  "two-stage greedy and, without score ties, every such run has the same result; is_matchable truth table; direction of "
                  "optimisation per matching mode. The model is compared with get_object_results on every generated scene and the "
                  "model's is_matchable table with MatchingLabelPolicy.is_matchable on every pair.")
    level_note = ("Trusted: Coq kernel+vm_compute; Model/Matching.v (tied by this run's correspondence); matching values are read from the public "
                  "matching classes. With ties the result depends on numpy's first-occurrence rule, which the model reproduces and the "
                  "correspondence checks; the theorems about blocking pairs hold with ties as well.")
    rule = ("as C01 with the 'contested' flavour (2-3 labels, tight clusters) for ~70 % of the scenes; non-trivial = some ground truth has >= 2 "
            "matchable candidates and at least one pair is formed; every eighth small / mid scene carries C01's anti-diagonal tie block (4 estimates of one "
            "label around 3 ground truths of another: a second stage with >= 3 left-over estimates, tied cells (i, j) = (i+1, j-1), a contested ground "
            "truth); plus the manager path of C01 (one-number radii incl. 0 / 0.0, earlier frames through the same manager, tie blocks) (configured policy / radii reach the matcher; "
            "3D and 2D-ROI evaluators, tracking tasks, target uuids); 'matchable' in the blocking-pair predicate and in the independent greedy is "
            "recomputed from the case (frames / labels as built, radius at the index of the ground truth's label, strict comparison), and the "
            "library's own matchable table is compared with it cell by cell")
    assumptions = ["objects carry geometry (3D boxes or 2D ROIs); the ROI-less 2D dispatch is C11",
                   "matching values are finite floats"]
    not_proved = ["optimality of the assignment in any global sense (the code implements a greedy, not an optimal assignment)",
                  "the geometric meaning of the matching values (C06)"]

    def correspondences(self):
        return [GreedyCorr(), GreedyManagerCorr()]


READY = True
PROP = C02()
