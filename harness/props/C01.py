"""C01 -- matching is one-to-one and accounts for every estimate.

The generator, the implementation driver and the in-Coq correspondence defined here are shared
with C02 (harness/props/C02.py), which adds its own oracle and a generator flavour that
concentrates on contested ground truths."""
import math
from fractions import Fraction

from harness.lib.core import Corr, Prop, blit, llit

MODES = ["CENTERDISTANCE", "PLANEDISTANCE", "IOU2D", "IOU3D"]
POLICIES = ["DEFAULT", "ALLOW_UNKNOWN", "ALLOW_ANY"]
LABELS_AW = ["CAR", "TRUCK", "BUS", "BICYCLE", "MOTORBIKE", "PEDESTRIAN", "ANIMAL"]
LABELS_TL = ["TRAFFIC_LIGHT", "GREEN", "RED", "YELLOW", "RED_LEFT", "GREEN_STRAIGHT"]
FRAMES = {"3d": ["base_link", "map", "lidar_top"], "2d": ["cam_front", "cam_back", "cam_traffic_light_near"]}
# offsets (in 1/8 m) between an estimate and "its" ground truth: symmetric pairs give exact ties,
# (3,4,5)-triangles give distances that hit the threshold pool exactly
OFFS3 = [(0, 0), (4, 0), (-4, 0), (0, 4), (0, -4), (8, 0), (0, 8), (3, 4), (-3, 4), (4, 3), (4, 4), (12, 0), (6, 8), (-6, -8),
         (2, 0), (0, -2), (16, 0), (0, 20)]
THR_DIST = [0.5, 0.625, 1.0, 1.25, 1.5, 2.0, 3.0, 100.0, 0.0, 0.25]
THR_IOU = [0.0, 0.125, 0.25, 0.5, 1.0, 0.75, 0.0625]
SIZES3 = [(4.0, 2.0, 2.0), (2.0, 2.0, 2.0), (2.0, 1.0, 1.0), (1.0, 1.0, 2.0), (4.0, 4.0, 2.0), (1.0, 1.0, 1.0), (8.0, 4.0, 4.0)]
ROI_WH = [(8, 8), (4, 4), (16, 16), (8, 4), (4, 8), (16, 8), (2, 2)]
OFFS2 = [(0, 0), (4, 0), (-4, 0), (0, 4), (0, -4), (8, 0), (3, 4), (-3, -4), (2, 2), (6, 8), (12, 0), (0, 16), (1, 0)]


# ------------------------------------------------------------------------------------------------
# case generation (pure: rng only)
# ------------------------------------------------------------------------------------------------
def gen_scene(rng, n, m, flavor="mixed", dim=None, mode=None, policy=None, fpv=None, cheap=False, family=None):
    if flavor == "continuous":
        dim = "3d"
    dim = dim or ("3d" if rng.random() < 0.62 else "2d")
    modes3 = MODES if not cheap else ["CENTERDISTANCE", "CENTERDISTANCE", "IOU2D", "IOU2D", "IOU3D", "PLANEDISTANCE"]
    mode = mode or (rng.choice(modes3) if dim == "3d" else rng.choice(["CENTERDISTANCE", "IOU2D"]))
    policy = policy or rng.choice(POLICIES)
    fpv = (rng.random() < 0.3) if fpv is None else fpv
    family = family or ("autoware" if dim == "3d" or rng.random() < 0.7 else "traffic_light")
    base = LABELS_AW if family == "autoware" else LABELS_TL
    pool = rng.sample(base, rng.randint(2, min(5, len(base))))
    if flavor == "contested":
        pool = pool[: rng.randint(2, 3)]
    frames = FRAMES[dim][: rng.choice([1, 1, 1, 2, 2, 3])]
    # target labels / matchable thresholds
    r = rng.random()
    if r < 0.08:
        targets = None
    else:
        targets = list(pool)
        rng.shuffle(targets)
        if rng.random() < 0.3:
            targets.append("UNKNOWN")
        if rng.random() < 0.3:
            targets.append("FP")
        if rng.random() < 0.25 and len(targets) > 1:
            targets.pop(rng.randrange(len(targets)))          # some GT label without a threshold
        if rng.random() < 0.15 and targets:
            # one label listed TWICE (what merge_similar_labels makes of car / truck), each entry with its own radius: the library's
            # documented lookup resolves the FIRST entry (round 5 of DESIGN section 9, C01_j)
            targets.insert(rng.randrange(len(targets) + 1), rng.choice(targets))
    if (targets is None and rng.random() < 0.6) or (targets is not None and rng.random() < 0.3):
        thresholds = None
    elif targets is None:
        # a radius list without target labels: there is no label to look a radius up for, so no radius applies
        thresholds = [rng.choice(THR_IOU if mode.startswith("IOU") else THR_DIST) for _ in range(rng.randint(1, 3))]
    else:
        tp = THR_IOU if mode.startswith("IOU") else THR_DIST
        if dim == "2d" and not mode.startswith("IOU"):
            tp = [4.0, 5.0, 8.0, 10.0, 0.0, 1000.0, 12.0, 2.0]
        thresholds = [rng.choice(tp) for _ in targets]
        if flavor == "continuous":
            thresholds = [round(rng.uniform(0.0, 1.0), 3) if mode.startswith("IOU") else round(rng.uniform(0.0, 6.0), 3) for _ in targets]

    def gt_label():
        r = rng.random()
        if r < 0.12:
            return "FP"
        if r < 0.17:
            return "UNKNOWN"
        return rng.choice(pool)

    def est_label(near):
        r = rng.random()
        if r < 0.15:
            return "UNKNOWN"
        if near is not None and r < 0.6 and near["label"] not in ("FP",):
            return near["label"]
        return rng.choice(pool)

    gts, ests = [], []
    spread = 2 if flavor == "contested" else rng.choice([2, 3, 5, 8])
    for _ in range(m):
        fr = rng.choice(frames)
        if flavor == "continuous":
            gts.append({"p": [rng.uniform(-8.0, 8.0) * 8 * spread, rng.uniform(-8.0, 8.0) * 8 * spread, rng.uniform(-4.0, 4.0)],
                        "size": [rng.uniform(0.3, 6.0), rng.uniform(0.3, 3.0), rng.uniform(0.5, 3.0)],
                        "yaw_rad": rng.uniform(-3.2, 3.2), "label": gt_label(), "frame": fr})
        elif dim == "3d":
            gts.append({"p": [8 * rng.randint(-spread, spread), 8 * rng.randint(-spread, spread), rng.choice([0, 0, 4])],
                        "size": list(rng.choice(SIZES3)), "yaw": rng.choice([0, 0, 0, 2, 1]), "label": gt_label(), "frame": fr})
        else:
            w, h = rng.choice(ROI_WH)
            gts.append({"roi": [100 + 8 * rng.randint(-spread, spread), 100 + 8 * rng.randint(-spread, spread), w, h],
                        "label": gt_label(), "frame": fr})
    for _ in range(n):
        near = rng.choice(gts) if gts and rng.random() < (0.95 if flavor == "contested" else 0.8) else None
        if ests and rng.random() < 0.08:
            src = rng.choice(ests)                                # exact duplicate geometry of another estimate
            o = {k: (list(v) if isinstance(v, list) else v) for k, v in src.items()}
            o["label"] = est_label(near)
            ests.append(o)
            continue
        fr = near["frame"] if near is not None and rng.random() < 0.85 else rng.choice(frames)
        if flavor == "continuous":
            if near is not None:
                p = [near["p"][0] + rng.gauss(0.0, 10.0), near["p"][1] + rng.gauss(0.0, 10.0), near["p"][2] + rng.gauss(0.0, 2.0)]
                size = [x * rng.uniform(0.7, 1.4) for x in near["size"]]
                yaw = near["yaw_rad"] + rng.gauss(0.0, 0.3)
            else:
                p = [rng.uniform(-400.0, 400.0), rng.uniform(-400.0, 400.0), 0.0]
                size = [rng.uniform(0.3, 6.0), rng.uniform(0.3, 3.0), rng.uniform(0.5, 3.0)]
                yaw = rng.uniform(-3.2, 3.2)
            ests.append({"p": p, "size": size, "yaw_rad": yaw, "label": est_label(near), "frame": fr})
        elif dim == "3d":
            if near is not None:
                dx, dy = rng.choice(OFFS3)
                p = [near["p"][0] + dx, near["p"][1] + dy, near["p"][2] + rng.choice([0, 0, 0, 4])]
                if rng.random() < 0.1:
                    # a NEAR tie: 2^-27 m off the lattice (exact in binary64) -- symmetric candidates then differ by less than float32
                    # resolution but are not tied: the better one must win, wherever it is listed
                    p[0] += rng.choice([1, -1, 2]) * 2.0 ** -24
                size = list(near["size"]) if rng.random() < 0.5 else list(rng.choice(SIZES3))
            else:
                p = [rng.randint(-80, 80), rng.randint(-80, 80), 0]
                size = list(rng.choice(SIZES3))
            ests.append({"p": p, "size": size, "yaw": rng.choice([0, 0, 0, 2, 1]), "label": est_label(near), "frame": fr})
        else:
            if near is not None:
                dx, dy = rng.choice(OFFS2)
                w, h = (near["roi"][2], near["roi"][3]) if rng.random() < 0.5 else rng.choice(ROI_WH)
                roi = [near["roi"][0] + dx, near["roi"][1] + dy, w, h]
            else:
                w, h = rng.choice(ROI_WH)
                roi = [rng.randint(0, 300), rng.randint(0, 300), w, h]
            ests.append({"roi": roi, "label": est_label(near), "frame": fr})
    # input REPRESENTATIONS: the dataset's name of a label (several names map to one enum member), keyword arguments left at their
    # documented defaults instead of being passed explicitly
    for o in ests + gts:
        o["nm"] = rng.choice([0, 0, 1, 2])
    omit = []
    if policy == "DEFAULT" and rng.random() < 0.5:
        omit.append("policy")
    if mode == "CENTERDISTANCE" and rng.random() < 0.3:
        omit.append("mode")
    if dim == "3d" and rng.random() < 0.4 and all(o["frame"] == "base_link" for o in ests + gts):
        omit.append("transforms")       # nothing in an ego-frame scene needs an ego pose (a result's plane distance does for other frames)
    if targets is None and thresholds is None and rng.random() < 0.5:
        omit.append("targets")
    return {"dim": dim, "family": family, "mode": mode, "policy": policy, "fpv": fpv, "targets": targets,
            "thresholds": thresholds, "est": ests, "gt": gts, "omit": omit}


def add_tie_block(rng, c):
    """Append, far away from everything else, a block of 3 ground truths of one label and 4 estimates of ANOTHER label (second matching
    stage unless the policy allows any label; >= 3 left-over estimates) whose score cells tie on the ANTI-diagonal: estimate i is as
    close to ground truth j as estimate i+1 is to ground truth j-1, and two estimates contest the last ground truth at the same score.
    Lattice scenes only (the ties are exact)."""
    if not c["gt"] or any("yaw_rad" in o for o in c["est"] + c["gt"]):
        return c
    labels = sorted({o["label"] for o in c["est"] + c["gt"] if o["label"] not in ("FP", "UNKNOWN")})
    if not labels:
        return c
    gl = rng.choice(labels)
    el = rng.choice([l for l in labels if l != gl] or ["UNKNOWN"])
    fr = c["gt"][0]["frame"]
    d = rng.choice([2, 4, 4, 8])
    if c["dim"] == "3d":
        X, Y = 8 * rng.choice([200, -200, 300]), 8 * rng.randint(-3, 3)
        size = list(rng.choice(SIZES3))

        def mk(x, label):
            return {"p": [X + x, Y, 0], "size": list(size), "yaw": 0, "label": label, "frame": fr, "nm": 0}
    else:
        X, Y = 2000 + 8 * rng.randint(0, 9), 600 + 8 * rng.randint(0, 9)
        w, h = rng.choice(ROI_WH[:5])

        def mk(x, label):
            return {"roi": [X + x, Y, w, h], "label": label, "frame": fr, "nm": 0}
    c["gt"] += [mk(0, gl), mk(80, gl), mk(160, gl)]
    c["est"] += [mk(80 + d, el), mk(-d, el), mk(160 - d, el), mk(160 + d, el)]
    c["tie_block"] = True
    return c


def witness_cases():
    """Regression inputs: run first."""
    def o3(x, y, label, frame="base_link", size=(2.0, 2.0, 2.0)):
        return {"p": [x, y, 0], "size": list(size), "yaw": 0, "label": label, "frame": frame}

    def sc(est, gt, **kw):
        c = {"dim": "3d", "family": "autoware", "mode": "CENTERDISTANCE", "policy": "DEFAULT", "fpv": False,
             "targets": ["CAR", "BUS"], "thresholds": None, "est": est, "gt": gt}
        c.update(kw)
        return c

    out = []
    # F2: FP validation with an empty GT list (used to raise IndexError)
    out.append(sc([o3(0, 0, "CAR")], [], fpv=True))
    out.append(sc([], [], fpv=True))
    out.append(sc([], [o3(0, 0, "CAR")]))
    out.append(sc([o3(0, 0, "CAR"), o3(8, 0, "BUS")], []))
    # score exactly on the radius (1.0 m): not matchable; just inside: matchable
    out.append(sc([o3(8, 0, "CAR")], [o3(0, 0, "CAR")], thresholds=[1.0, 1.0]))
    out.append(sc([o3(7, 0, "CAR")], [o3(0, 0, "CAR")], thresholds=[1.0, 1.0]))
    for mode in ("IOU2D", "IOU3D"):
        # IoU exactly 0.25 (nested 1x1 in 2x2 footprint, same height) against threshold 0.25 / 0.125
        out.append(sc([o3(0, 0, "CAR", size=(1.0, 1.0, 2.0))], [o3(0, 0, "CAR")], mode=mode, thresholds=[0.25, 0.25]))
        out.append(sc([o3(0, 0, "CAR", size=(1.0, 1.0, 2.0))], [o3(0, 0, "CAR")], mode=mode, thresholds=[0.125, 0.25]))
    # a closer estimate of the wrong label must not pre-empt the compatible one; contested GT
    out.append(sc([o3(1, 0, "BUS"), o3(4, 0, "CAR"), o3(-4, 0, "CAR")], [o3(0, 0, "CAR")]))
    out.append(sc([o3(1, 0, "BUS"), o3(4, 0, "CAR"), o3(-4, 0, "CAR")], [o3(0, 0, "CAR"), o3(16, 0, "BUS")], fpv=True))
    # different frames never match; unknown estimate under ALLOW_UNKNOWN; FP-labelled GT
    out.append(sc([o3(0, 0, "CAR", "map"), o3(1, 0, "UNKNOWN")], [o3(0, 0, "CAR"), o3(2, 0, "FP")], policy="ALLOW_UNKNOWN"))
    out.append(sc([o3(0, 0, "CAR", "map"), o3(1, 0, "UNKNOWN")], [o3(0, 0, "CAR"), o3(2, 0, "FP")], policy="ALLOW_ANY", mode="PLANEDISTANCE"))
    return out


def corpus_cases(pid):
    """Minimised regression inputs in corpus/<pid>/*.json (one case per file), run first."""
    import glob
    import json
    import os

    from harness.lib.core import ROOT

    out = []
    for path in sorted(glob.glob(os.path.join(ROOT, "corpus", pid, "*.json"))):
        with open(path) as f:
            d = json.load(f)
        out.append(d.get("case", d))
    return out


def gen_cases(tier, rng, flavor):
    out = corpus_cases("C02" if flavor == "contested" else "C01") + witness_cases()
    big = tier != "quick"
    # boundary: every combination of empty / singleton lists with every mode / policy / task
    for dim in ("3d", "2d"):
        for mode in (MODES if dim == "3d" else ["CENTERDISTANCE", "IOU2D"]):
            for fpv in (False, True):
                for (n, m) in ((0, 0), (0, 2), (2, 0), (1, 1)):
                    out.append(gen_scene(rng, n, m, flavor, dim=dim, mode=mode, fpv=fpv))
                for policy in POLICIES:
                    out.append(gen_scene(rng, rng.randint(2, 5), rng.randint(1, 4), "contested", dim=dim, mode=mode, fpv=fpv, policy=policy))
    n_small, n_mid, n_large, n_cont = (460, 230, 64, 60) if not big else (8000, 4000, 1200, 1500)
    if flavor == "contested":
        n_small, n_mid, n_large, n_cont = (480, 220, 56, 50) if not big else (8500, 3800, 1000, 1300)
    hi = 16 if not big else 24
    small = [gen_scene(rng, rng.randint(1, 5), rng.randint(1, 5), flavor if rng.random() < 0.7 else "mixed") for _ in range(n_small)]
    mid = [gen_scene(rng, rng.randint(3, 10), rng.randint(3, 10), flavor if rng.random() < 0.7 else "mixed") for _ in range(n_mid)]
    # every eighth small / mid scene: an anti-diagonal tie block of label-incompatible pairs (second stage with >= 3 left-over estimates)
    small = [add_tie_block(rng, c) if k % 8 == 5 else c for k, c in enumerate(small)]
    mid = [add_tie_block(rng, c) if k % 8 == 5 else c for k, c in enumerate(mid)]
    cont = [gen_scene(rng, rng.randint(1, 9), rng.randint(1, 9), "continuous") for _ in range(n_cont)]   # arbitrary floats
    large = [gen_scene(rng, rng.randint(8, hi), rng.randint(8, hi), flavor if rng.random() < 0.5 else "mixed", cheap=True) for _ in range(n_large)]
    # interleave the streams so that the coqc shards are balanced
    streams = [small, mid, cont, large]
    total = sum(len(x) for x in streams)
    pos = [0] * len(streams)
    for k in range(total):
        # pick the stream that is furthest behind its share
        best = max(range(len(streams)), key=lambda i: (len(streams[i]) - pos[i]) / max(1, len(streams[i])) if pos[i] < len(streams[i]) else -1)
        out.append(streams[best][pos[best]])
        pos[best] += 1
    return out


# ------------------------------------------------------------------------------------------------
# driving the implementation
# ------------------------------------------------------------------------------------------------
_IMPL = {}


def _impl():
    if _IMPL:
        return _IMPL
    from perception_eval.common.evaluation_task import EvaluationTask
    from perception_eval.common.label import AutowareLabel, Label, TrafficLightLabel, is_same_label
    from perception_eval.common.object import DynamicObject
    from perception_eval.common.object2d import DynamicObject2D
    from perception_eval.common.schema import FrameID
    from perception_eval.common.shape import Shape, ShapeType
    from perception_eval.common.threshold import get_label_threshold
    from perception_eval.common.transform import HomogeneousMatrix, TransformDict
    from perception_eval.evaluation.matching import object_matching as om
    from perception_eval.evaluation.result.object_result import get_object_results
    from pyquaternion import Quaternion

    _IMPL.update(dict(
        EvaluationTask=EvaluationTask, AutowareLabel=AutowareLabel, TrafficLightLabel=TrafficLightLabel, Label=Label,
        is_same_label=is_same_label, DynamicObject=DynamicObject, DynamicObject2D=DynamicObject2D, FrameID=FrameID,
        Shape=Shape, ShapeType=ShapeType, get_label_threshold=get_label_threshold, HomogeneousMatrix=HomogeneousMatrix,
        TransformDict=TransformDict, om=om, get_object_results=get_object_results, Quaternion=Quaternion,
        classes={"CENTERDISTANCE": om.CenterDistanceMatching, "PLANEDISTANCE": om.PlaneDistanceMatching,
                 "IOU2D": om.IOU2dMatching, "IOU3D": om.IOU3dMatching},
    ))
    return _IMPL


# dataset names that the label tables map to one enum member (the name is carried by Label.name, the member by Label.label)
ALT_NAMES = {"CAR": ["car", "vehicle.car", "vehicle.construction"], "TRUCK": ["truck", "vehicle.truck", "trailer"],
             "BUS": ["bus", "vehicle.bus", "vehicle.bus (bendy & rigid)"], "BICYCLE": ["bicycle", "vehicle.bicycle", "BICYCLE"],
             "MOTORBIKE": ["motorbike", "vehicle.motorcycle", "motorcycle"], "PEDESTRIAN": ["pedestrian", "pedestrian.adult", "pedestrian.child"],
             "UNKNOWN": ["unknown", "movable_object.debris", "static_object.bicycle rack"]}
YAWS = {0: (1.0, 0.0, 0.0, 0.0), 2: (0.0, 0.0, 0.0, 1.0), 1: (math.sqrt(0.5), 0.0, 0.0, math.sqrt(0.5))}


def build(case):
    I = _impl()
    fam = I["AutowareLabel"] if case["family"] == "autoware" else I["TrafficLightLabel"]

    def lab(name, nm=0):
        member = fam[name]
        return I["Label"](member, ALT_NAMES.get(name, [member.value, "alt." + member.value, member.value.upper()])[nm % 3], [])

    def mk(o, i, who):
        fr = I["FrameID"].from_value(o["frame"])
        if case["dim"] == "3d":
            return I["DynamicObject"](
                unix_time=100, frame_id=fr, position=(o["p"][0] / 8.0, o["p"][1] / 8.0, o["p"][2] / 8.0),
                orientation=(I["Quaternion"](axis=[0.0, 0.0, 1.0], angle=o["yaw_rad"]) if "yaw_rad" in o else I["Quaternion"](*YAWS[o["yaw"]])),
                shape=I["Shape"](I["ShapeType"].BOUNDING_BOX, tuple(o["size"])),
                semantic_score=0.5, semantic_label=lab(o["label"], o.get("nm", 0)), velocity=(0.0, 0.0, 0.0), uuid=f"{who}{i}", pointcloud_num=10)
        return I["DynamicObject2D"](unix_time=100, frame_id=fr, semantic_score=0.5, semantic_label=lab(o["label"], o.get("nm", 0)),
                                    roi=tuple(o["roi"]), uuid=f"{who}{i}")

    ests = [mk(o, i, "e") for i, o in enumerate(case["est"])]
    gts = [mk(o, i, "g") for i, o in enumerate(case["gt"])]
    T = I["EvaluationTask"]
    if case["dim"] == "3d":
        task = T.FP_VALIDATION if case["fpv"] else T.DETECTION
        F = I["FrameID"]
        transforms = I["TransformDict"]([
            I["HomogeneousMatrix"]((1.0, -2.0, 0.0), (1.0, 0.0, 0.0, 0.0), src=F.BASE_LINK, dst=F.MAP),
            I["HomogeneousMatrix"]((0.5, 0.0, 0.0), (1.0, 0.0, 0.0, 0.0), src=F.LIDAR_TOP, dst=F.BASE_LINK)])
    else:
        task = T.FP_VALIDATION2D if case["fpv"] else T.DETECTION2D
        transforms = None
    targets = None if case["targets"] is None else [fam[t] for t in case["targets"]]
    return task, ests, gts, targets, transforms


def index_results(results, ests, gts):
    """Result list -> [[estimate index, gt index | None]] by object identity (id())."""
    eid = {id(o): i for i, o in enumerate(ests)}
    gid = {id(o): i for i, o in enumerate(gts)}
    pairs, foreign = [], False
    for r in results:
        e = eid.get(id(r.estimated_object))
        g = None if r.ground_truth_object is None else gid.get(id(r.ground_truth_object), -1)
        if e is None or g == -1:
            foreign = True
            e = -1 if e is None else e
        pairs.append([e, g])
    return pairs, foreign


def obj_fp(o):
    """every attribute of an estimate / ground truth that matching could rewrite (3D box or 2D ROI), read attribute by attribute"""
    lab = o.semantic_label
    fp = [type(o).__name__, o.uuid, o.unix_time, o.frame_id.value, float(o.semantic_score), lab.label.name, lab.name, list(lab.attributes)]
    roi = getattr(o, "roi", None)
    if roi is not None:
        fp += [[int(x) for x in roi.offset], [int(x) for x in roi.size]]
    st = getattr(o, "state", None)
    if st is not None and getattr(st, "position", None) is not None:
        fp += [[float(x) for x in st.position]]
        if getattr(st, "orientation", None) is not None:
            fp += [[float(x) for x in st.orientation.q], [float(x) for x in st.size],
                   None if st.velocity is None else [float(x) for x in st.velocity], getattr(o, "pointcloud_num", None)]
    return fp


def read_facts(ests, gts, targets, thresholds, policy, mode_name, transforms):
    """The facts the model is fed, read from the objects through public API only."""
    I = _impl()
    cls = I["classes"][mode_name]
    frames = sorted({o.frame_id.value for o in ests + gts})
    value, same_label, ok, live, on_radius = [], [], [], [], 0
    gt_thr = [I["get_label_threshold"](g.semantic_label, targets, thresholds) for g in gts]
    for e in ests:
        vrow, srow, orow, lrow = [], [], [], []
        for j, g in enumerate(gts):
            srow.append(bool(I["is_same_label"](e, g)))
            orow.append(bool(policy.is_matchable(e, g)))
            if e.frame_id == g.frame_id:
                mm = cls(estimated_object=e, ground_truth_object=g, transforms=transforms)
                v = mm.value
                v = None if v is None else float(v)
                if v is not None and (math.isnan(v) or math.isinf(v)):
                    v = None
                vrow.append(v)
                thr = gt_thr[j]
                if v is None:
                    lrow.append(False)
                elif thr is None:
                    lrow.append(True)
                else:
                    lrow.append(bool(mm.is_better_than(thr)))
                    if v == thr:
                        on_radius += 1
            else:
                vrow.append(None)
                lrow.append(False)
        value.append(vrow)
        same_label.append(srow)
        ok.append(orow)
        live.append(lrow)
    facts = {
        "est_frame": [frames.index(o.frame_id.value) for o in ests],
        "gt_frame": [frames.index(o.frame_id.value) for o in gts],
        "est_frame_name": [o.frame_id.value for o in ests],
        "gt_frame_name": [o.frame_id.value for o in gts],
        "est_label": [o.semantic_label.label.name for o in ests],
        "gt_label": [o.semantic_label.label.name for o in gts],
        "same_frame_api": [[bool(e.frame_id == g.frame_id) for g in gts] for e in ests],
        "gt_thr": [None if t is None else float(t) for t in gt_thr],
        "est_unknown": [bool(e.semantic_label.is_unknown()) for e in ests],
        "gt_fp": [bool(g.semantic_label.is_fp()) for g in gts],
        "value": value, "same_label": same_label,
    }
    return facts, ok, live, on_radius


def _who(changed, n_est):
    return [f"estimate {i}" if i < n_est else f"ground truth {i - n_est}" for i in changed]


def observe(case):
    """Run get_object_results and read the facts the model is fed, all through public API."""
    I = _impl()
    om = I["om"]
    task, ests, gts, targets, transforms = build(case)
    policy = om.MatchingLabelPolicy[case["policy"]]
    mode = om.MatchingMode[case["mode"]]
    thresholds = None if case["thresholds"] is None else list(case["thresholds"])
    targets_arg = None if targets is None else list(targets)
    ests_arg, gts_arg = list(ests), list(gts)
    before = [obj_fp(o) for o in ests + gts]
    kw = {"target_labels": targets_arg, "matching_label_policy": policy, "matching_mode": mode, "matchable_thresholds": thresholds,
          "transforms": transforms}
    omit = case.get("omit", [])
    for key, name in (("policy", "matching_label_policy"), ("mode", "matching_mode"), ("transforms", "transforms"), ("targets", "target_labels")):
        if key in omit:
            del kw[name]               # left at the documented default (DEFAULT / CENTERDISTANCE / None / None)
    if "targets" in omit:
        del kw["matchable_thresholds"]
    if "transforms" in omit:
        transforms = None
    try:
        results = I["get_object_results"](task, ests_arg, gts_arg, **kw)
    except Exception as e:  # a (mutated) matcher may raise: that is an observation, not a harness error
        return {"error": f"{type(e).__name__}: {e}"}
    pairs, foreign = index_results(results, ests, gts)
    unchanged = (len(ests_arg) == len(ests) and all(a is b for a, b in zip(ests_arg, ests))
                 and len(gts_arg) == len(gts) and all(a is b for a, b in zip(gts_arg, gts))
                 and (targets_arg == targets) and (thresholds == case["thresholds"]))
    changed = [i for i, (a, o) in enumerate(zip(before, ests + gts)) if a != obj_fp(o)]
    facts, ok, live, on_radius = read_facts(ests, gts, targets, case["thresholds"], policy, case["mode"], transforms)
    return {"pairs": pairs, "foreign": foreign, "lists_unchanged": unchanged, "facts": facts, "ok": ok, "live": live,
            "maximize": case["mode"].startswith("IOU"), "on_radius": on_radius, "objects_changed": _who(changed, len(ests))}


# ------------------------------------------------------------------------------------------------
# the same through PerceptionEvaluationManager.add_frame_result (3D, the manager always matches by
# centre distance and takes policy / radii / task from its configuration)
# ------------------------------------------------------------------------------------------------
def observe_manager(case):
    import os

    from perception_eval.common.dataset import FrameGroundTruth
    from perception_eval.config import PerceptionEvaluationConfig
    from perception_eval.evaluation.matching.objects_filter import filter_objects
    from perception_eval.evaluation.result.perception_frame_config import CriticalObjectFilterConfig, PerceptionPassFailConfig
    from perception_eval.manager import PerceptionEvaluationManager
    from harness.lib.core import BUILD

    I = _impl()
    om = I["om"]
    _, ests, gts, _, _ = build(case)
    names = [t.lower() for t in case["targets"]]
    two_d = case["dim"] == "2d"
    task = "fp_validation" if case["fpv"] else ("tracking" if case.get("tracking") else "detection")
    cfg = {"evaluation_task": task + ("2d" if two_d else ""), "target_labels": names,
           "max_matchable_radii": case["thresholds"],
           "merge_similar_labels": False, "matching_label_policy": case["policy"], "ignore_attributes": None,
           "label_prefix": "autoware"}
    if not two_d:
        # a 2D evaluator takes no range and no point-number criteria (nothing on an image has a position)
        cfg.update({"max_x_position": 1000.0, "max_y_position": 1000.0, "min_point_numbers": [0] * len(names)})
    if case.get("uuids") is not None:
        cfg["target_uuids"] = [f"g{i}" for i in case["uuids"]]
    if not case["fpv"]:
        cfg.update({"center_distance_thresholds": [1.0], "iou_2d_thresholds": [0.5]})
        if not two_d:
            cfg.update({"plane_distance_thresholds": [1.0], "iou_3d_thresholds": [0.5]})
    rdir = os.path.join(BUILD, "C01_manager_results")
    ec = PerceptionEvaluationConfig([], FRAMES["2d"] if two_d else "base_link", rdir, cfg, False)
    manager = PerceptionEvaluationManager(ec)
    F = I["FrameID"]
    if two_d:
        fgt = FrameGroundTruth(100, "0", list(gts))
        cof = CriticalObjectFilterConfig(ec, names)
    else:
        fgt = FrameGroundTruth(100, "0", list(gts), transforms=[I["HomogeneousMatrix"]((1.0, -2.0, 0.0), (1.0, 0.0, 0.0, 0.0), src=F.BASE_LINK, dst=F.MAP)])
        cof = CriticalObjectFilterConfig(ec, names, max_x_position_list=[1000.0] * len(names), max_y_position_list=[1000.0] * len(names))
    ests_arg = list(ests)
    pf = PerceptionPassFailConfig(ec, names, matching_threshold_list=[1.0] * len(names))
    for k in range(case.get("warm", 0)):
        def mirror(o):
            o = dict(o)
            if "p" in o:
                o["p"] = [-o["p"][0] + 8 * k, o["p"][1], o["p"][2]]
            else:
                o["roi"] = [o["roi"][0] + 40 * (k + 1), o["roi"][1], o["roi"][2], o["roi"][3]]
            return o
        _, e0, g0, _, _ = build(dict(case, est=[mirror(o) for o in reversed(case["est"])], gt=[mirror(o) for o in reversed(case["gt"][1:])]))
        f0 = FrameGroundTruth(100, "0", g0) if two_d else FrameGroundTruth(100, "0", g0, transforms=[
            I["HomogeneousMatrix"]((40.0 + k, 7.0, 0.0), (0.0, 0.0, 0.0, 1.0), src=F.BASE_LINK, dst=F.MAP)])
        try:
            manager.add_frame_result(100, f0, e0, cof, pf)
        except Exception as e:
            return {"error": f"earlier frame {k}: {type(e).__name__}: {e}"}
    before = [obj_fp(o) for o in ests + gts]
    try:
        res = manager.add_frame_result(100, fgt, ests_arg, cof, pf)
    except Exception as e:
        return {"error": f"{type(e).__name__}: {e}"}
    # what the matcher was given: the filtered lists (public filter, same parameters as the manager's)
    f_ests = filter_objects(objects=list(ests), is_gt=False, transforms=fgt.transforms, **manager.filtering_params)
    f_gts = list(res.frame_ground_truth.objects)
    known = {id(o) for o in ests} | {id(o) for o in gts}
    if any(id(o) not in known for o in f_ests + f_gts):
        return {"error": "filtering produced objects that are not the caller's objects"}
    pairs, foreign = index_results(res.object_results, f_ests, f_gts)
    unchanged = (len(ests_arg) == len(ests) and all(a is b for a, b in zip(ests_arg, ests))
                 and len(fgt.objects) == len(gts) and all(a is b for a, b in zip(fgt.objects, gts)))
    changed = [i for i, (a, o) in enumerate(zip(before, ests + gts)) if a != obj_fp(o)]
    policy = om.MatchingLabelPolicy[case["policy"]]
    facts, ok, live, on_radius = read_facts(f_ests, f_gts, manager.target_labels, manager.filtering_params["max_matchable_radii"],
                                            policy, "CENTERDISTANCE", fgt.transforms)
    # the ground truths the evaluator must hand to the matcher, stated on the case: label among the targets (or FP-labelled, always kept)
    # and, with target uuids, one of those uuids
    gi = {id(o): i for i, o in enumerate(gts)}
    return {"pairs": pairs, "foreign": foreign, "lists_unchanged": unchanged, "facts": facts, "ok": ok, "live": live,
            "maximize": False, "on_radius": on_radius, "n_filtered": [len(f_ests), len(f_gts)], "objects_changed": _who(changed, len(ests)),
            "gt_ids_to_matcher": [gi[id(o)] for o in f_gts],
            # the evaluator's target labels as the configuration object holds them (label conversion is C14: "animal" is UNKNOWN)
            "manager_targets": [l.name for l in manager.target_labels]}


# ------------------------------------------------------------------------------------------------
# Coq emission
# ------------------------------------------------------------------------------------------------
def ql(x):
    fr = Fraction(x)
    n = fr.numerator
    return f"(Qmake {n} {fr.denominator})" if n >= 0 else f"(Qmake ({n}) {fr.denominator})"


def oq(x):
    return "None" if x is None else f"(Some {ql(x)})"


def nl(xs):
    return llit([str(int(x)) for x in xs])


def bl(xs):
    return llit([blit(x) for x in xs])


def facts_term(f):
    return ("(mkFacts " + nl(f["est_frame"]) + " " + nl(f["gt_frame"]) + " " + llit([oq(t) for t in f["gt_thr"]]) + " "
            + bl(f["est_unknown"]) + " " + bl(f["gt_fp"]) + " "
            + llit([llit([oq(v) for v in row]) for row in f["value"]]) + " "
            + llit([bl(row) for row in f["same_label"]]) + ")")


def pairs_term(pairs):
    return llit([f"({e}, {'None' if g is None else f'Some {g}'})" for e, g in pairs])


HEADER = ("From Coq Require Import List Bool QArith.\nFrom PE Require Import Base.CaseUtil Model.Matching.\n"
          "Import ListNotations.\nClose Scope Q_scope.\nOpen Scope nat_scope.\nOpen Scope bool_scope.\n")


# ------------------------------------------------------------------------------------------------
# direct oracles (independent of the Coq model)
# ------------------------------------------------------------------------------------------------
def strictly_better(maximize, a, b):
    return a > b if maximize else a < b


def expected_threshold(case, gt_label, targets=None):
    """Documented get_label_threshold, stated on the CASE (label names, never the library's lookup): the matchable radius
    configured for a ground truth is the entry of the radius list at the position of the ground truth's label in the
    target-label list; none without a target list / radius list or for a label that is not a target."""
    targets, thresholds = (case["targets"] if targets is None else targets), case["thresholds"]
    if targets is None or thresholds is None or gt_label not in targets:
        return None
    if not isinstance(thresholds, list):
        return float(thresholds)          # evaluator configuration: ONE number is the radius of every target label (0 included)
    return float(thresholds[targets.index(gt_label)])


def expected_live(case, obs):
    """The matchable cells (same coordinate / camera frame and, when a radius is configured for the ground truth's label,
    a score STRICTLY better than it), recomputed without FrameID.__eq__, get_label_threshold and is_better_than: frames and
    labels are the ones the objects were BUILT with (manager path: the attributes of the filtered objects), the radius comes
    from expected_threshold, the direction from the mode name.  Returns (live table, radius per ground truth)."""
    f = obs["facts"]
    if case.get("via") == "manager":
        ef, gf, gl = f["est_frame_name"], f["gt_frame_name"], f["gt_label"]
    else:
        ef, gf, gl = [o["frame"] for o in case["est"]], [o["frame"] for o in case["gt"]], [o["label"] for o in case["gt"]]
    maximize = case["mode"].startswith("IOU")
    thr = [expected_threshold(case, l, obs.get("manager_targets")) for l in gl]
    live = []
    for e in range(len(ef)):
        row = []
        for g in range(len(gf)):
            v = f["value"][e][g]
            row.append(ef[e] == gf[g] and v is not None and (thr[g] is None or strictly_better(maximize, v, thr[g])))
        live.append(row)
    return live, thr


def helpers_vs_documentation(case, obs):
    """every cell of the matchable table the library's helpers produce (frame_id ==, get_label_threshold, is_better_than) against
    expected_live: a helper that is stricter than documented only turns pairs into legal "unpaired estimates", which no clause about
    the formed pairs can see"""
    f = obs["facts"]
    live, thr = expected_live(case, obs)
    for g, (a, b) in enumerate(zip(f["gt_thr"], thr)):
        if a != b:
            return (f"get_label_threshold gives {a} for ground truth {g} (label {f['gt_label'][g]}) but the radius configured for that label "
                    f"(targets {obs.get('manager_targets', case['targets'])}, radii {case['thresholds']}) is {b}")
    names = case.get("via") != "manager"
    for e, row in enumerate(live):
        for g, want in enumerate(row):
            same = (case["est"][e]["frame"] == case["gt"][g]["frame"]) if names else (f["est_frame_name"][e] == f["gt_frame_name"][g])
            if bool(f["same_frame_api"][e][g]) != same:
                return (f"estimate {e} was built in frame {f['est_frame_name'][e]} and ground truth {g} in frame {f['gt_frame_name'][g]} but "
                        f"frame_id == says {f['same_frame_api'][e][g]}")
            if bool(obs["live"][e][g]) != want:
                return (f"estimate {e} ({f['est_frame_name'][e]}) / ground truth {g} ({f['gt_frame_name'][g]}): score {f['value'][e][g]}, radius of the "
                        f"ground truth's label {thr[g]}: the pair is {'matchable' if want else 'not matchable'} as documented (same frame, "
                        f"score strictly better than the radius) but frame_id == / is_better_than say {obs['live'][e][g]}")
    return None


def oracle_c01(case, obs):
    if "__harness_exception__" in obs:
        return f"the implementation could not be observed: {obs['__harness_exception__']}"
    if "error" in obs:
        return f"get_object_results raised {obs['error']}"
    pairs, f = obs["pairs"], obs["facts"]
    n, m = len(f["est_frame"]), len(f["gt_frame"])
    if obs["foreign"]:
        return "a result refers to an object that is not in the input lists"
    if not obs["lists_unchanged"]:
        return "the caller's lists were modified (not the same objects in the same order afterwards)"
    if obs.get("objects_changed"):
        return (f"the caller's objects were modified: {', '.join(obs['objects_changed'][:4])} no longer carry the uuid / time / frame / score / "
                f"label / geometry they were handed over with")
    es = [e for e, _ in pairs]
    gs = [g for _, g in pairs if g is not None]
    if any(not (0 <= e < n) for e in es) or any(not (0 <= g < m) for g in gs):
        return "index out of range"
    if len(set(es)) != len(es):
        d = sorted({e for e in es if es.count(e) > 1})
        return f"estimate(s) {d} appear in more than one result"
    if len(set(gs)) != len(gs):
        d = sorted({g for g in gs if gs.count(g) > 1})
        return f"ground truth(s) {d} are paired with more than one estimate"
    want_live, want_thr = expected_live(case, obs)
    for e, g in pairs:
        if g is None:
            continue
        if f["est_frame_name"][e] != f["gt_frame_name"][g] or not f["same_frame_api"][e][g]:
            return f"estimate {e} ({f['est_frame_name'][e]}) is paired with ground truth {g} ({f['gt_frame_name'][g]}): different frames"
        for thr in (f["gt_thr"][g], want_thr[g]):      # the library's lookup and the radius read off the case
            if thr is not None:
                v = f["value"][e][g]
                if v is None or not strictly_better(obs["maximize"], v, thr) or not obs["live"][e][g]:
                    return (f"estimate {e} is paired with ground truth {g} although its score {v} is not strictly better than the "
                            f"matchable threshold {thr} of that label")
        if not want_live[e][g]:
            return f"estimate {e} is paired with ground truth {g} although the pair is not matchable (frame / radius of the ground truth's label)"
    if case.get("via") == "manager" and "gt_ids_to_matcher" in obs:
        want = [i for i, g in enumerate(case["gt"]) if g["label"] == "FP" or (g["label"] in obs["manager_targets"]
                                                                               and (case.get("uuids") is None or i in case["uuids"]))]
        if want != obs["gt_ids_to_matcher"]:
            return (f"evaluator with target labels {obs['manager_targets']} and target uuids {case.get('uuids')}: ground truths "
                    f"{obs['gt_ids_to_matcher']} take part in the matching but the configuration selects {want}")
    if case["fpv"] or case.get("uuids") is not None:
        lone = [e for e, g in pairs if g is None]
        if lone:
            return f"{'FP validation' if case['fpv'] else 'evaluator with target uuids'}: unpaired estimate(s) {lone} were not dropped"
    else:
        if sorted(es) != list(range(n)):
            missing = sorted(set(range(n)) - set(es))
            return f"estimate(s) {missing} appear in no result"
    return helpers_vs_documentation(case, obs)


# ------------------------------------------------------------------------------------------------
class MatchCorr(Corr):
    name = "get_object_results"
    header = HEADER
    requires = ["Model/Matching.vo", "Base/CaseUtil.vo"]
    shard = 40
    flavor = "mixed"

    def cases(self, tier, rng):
        return gen_cases(tier, rng, self.flavor)

    def run_impl(self, case):
        return observe(case)

    def coq_term(self, case, obs):
        if "error" in obs or obs["foreign"]:
            return "false"
        return (f"(check_case {case['mode']} P_{case['policy']} {blit(case['fpv'])} {facts_term(obs['facts'])} "
                f"{pairs_term(obs['pairs'])} {llit([bl(r) for r in obs['ok']])} {llit([bl(r) for r in obs['live']])})")

    def coq_debug(self, case, obs):
        if "error" in obs or obs["foreign"]:
            return None
        F = facts_term(obs["facts"])
        return (f"(get_object_results {case['mode']} P_{case['policy']} {blit(case['fpv'])} {F}, facts_wf {F}, "
                f"ok_table P_{case['policy']} {F}, live_table {case['mode']} {F})")

    def oracle(self, case, obs):
        return oracle_c01(case, obs)

    def nontrivial(self, case, obs):
        return "error" not in obs and len(case["est"]) >= 2 and len(case["gt"]) >= 1 and any(g is not None for _, g in obs["pairs"])

    def describe(self, case, obs):
        small = {k: v for k, v in obs.items() if k not in ("facts", "ok", "live")} if isinstance(obs, dict) else obs
        return {"case": case, "observed": small}

    def distribution(self, cases, obs):
        d = {"dim": {}, "mode": {}, "policy": {}, "kwargs_left_at_default": {}, "objects_with_alternative_label_name": 0,
             "radius_list_without_target_labels": 0, "fpv": 0, "no_thresholds": 0, "empty_est": 0, "empty_gt": 0, "errors": 0,
             "n_hist": {}, "m_hist": {}, "frames_used": {}, "pairs": 0, "unpaired_results": 0, "scores_exactly_on_radius": 0,
             "cells_nan_frame": 0, "cells_nan_radius": 0, "cells_live": 0, "scenes_with_score_tie": 0,
             "scenes_with_contested_gt": 0, "scenes_with_incompatible_pair_matched": 0, "scenes_with_unknown_est": 0,
             "scenes_with_fp_gt": 0, "runtime_observations": {"caller_lists_unchanged": 0, "caller_objects_unchanged": 0, "no_foreign_objects": 0}}

        def bump(h, k):
            h[str(k)] = h.get(str(k), 0) + 1

        def bucket(k):
            return "0" if k == 0 else "1-5" if k <= 5 else "6-10" if k <= 10 else "11-16" if k <= 16 else "17+"

        for c, o in zip(cases, obs):
            bump(d["dim"], c["dim"]); bump(d["mode"], c["mode"]); bump(d["policy"], c["policy"])
            d["fpv"] += bool(c["fpv"]); d["no_thresholds"] += c["thresholds"] is None
            d["tie_block_scenes"] = d.get("tie_block_scenes", 0) + bool(c.get("tie_block"))
            d["estimates_2^-27_m_off_the_lattice"] = d.get("estimates_2^-27_m_off_the_lattice", 0) + sum(
                1 for x in c["est"] if "p" in x and "yaw_rad" not in x and x["p"][0] != int(x["p"][0]))
            d["radius_exactly_0_for_some_label"] = d.get("radius_exactly_0_for_some_label", 0) + (
                c["thresholds"] is not None and (0 in c["thresholds"] if isinstance(c["thresholds"], list) else c["thresholds"] == 0))
            if c.get("via") == "manager":
                d["manager_one_number_radius"] = d.get("manager_one_number_radius", 0) + (c["thresholds"] is not None and not isinstance(c["thresholds"], list))
                d["manager_earlier_frames_through_the_same_manager"] = d.get("manager_earlier_frames_through_the_same_manager", 0) + c.get("warm", 0)
                d["manager_tracking_task"] = d.get("manager_tracking_task", 0) + bool(c.get("tracking"))
                d["manager_target_uuids"] = d.get("manager_target_uuids", 0) + (c.get("uuids") is not None)
            for k in c.get("omit", []) if "via" not in c else []:
                bump(d["kwargs_left_at_default"], k)
            d["objects_with_alternative_label_name"] += sum(1 for x in c["est"] + c["gt"] if x.get("nm", 0) % 3 != 0)
            d["radius_list_without_target_labels"] += c["targets"] is None and c["thresholds"] is not None
            d["empty_est"] += not c["est"]; d["empty_gt"] += not c["gt"]
            bump(d["n_hist"], bucket(len(c["est"]))); bump(d["m_hist"], bucket(len(c["gt"])))
            bump(d["frames_used"], len({x["frame"] for x in c["est"] + c["gt"]}))
            if "error" in o:
                d["errors"] += 1
                continue
            d["runtime_observations"]["caller_lists_unchanged"] += bool(o["lists_unchanged"])
            d["runtime_observations"]["caller_objects_unchanged"] += not o.get("objects_changed")
            d["runtime_observations"]["no_foreign_objects"] += not o["foreign"]
            d["pairs"] += sum(1 for _, g in o["pairs"] if g is not None)
            d["unpaired_results"] += sum(1 for _, g in o["pairs"] if g is None)
            d["scores_exactly_on_radius"] += o["on_radius"]
            f = o["facts"]
            live_vals = []
            contested = False
            fn, fm = len(f["est_frame"]), len(f["gt_frame"])
            for j in range(fm):
                if sum(1 for i in range(fn) if o["live"][i][j]) >= 2:
                    contested = True
            for i in range(fn):
                for j in range(fm):
                    if not f["same_frame_api"][i][j]:
                        d["cells_nan_frame"] += 1
                    elif not o["live"][i][j]:
                        d["cells_nan_radius"] += 1
                    else:
                        d["cells_live"] += 1
                        live_vals.append(f["value"][i][j])
            d["scenes_with_score_tie"] += len(set(live_vals)) < len(live_vals)
            d["scenes_with_contested_gt"] += contested
            d["scenes_with_incompatible_pair_matched"] += any(g is not None and not o["ok"][e][g] for e, g in o["pairs"])
            d["scenes_with_unknown_est"] += any(f["est_unknown"])
            d["scenes_with_fp_gt"] += any(f["gt_fp"])
            s2 = sum(1 for e, g in o["pairs"] if g is not None and not o["ok"][e][g])
            s1 = sum(1 for e, g in o["pairs"] if g is not None and o["ok"][e][g])
            d["scenes_with_3_second_stage_pairs"] = d.get("scenes_with_3_second_stage_pairs", 0) + (s2 >= 3)
            d["scenes_with_2_second_stage_pairs_and_3_leftover_estimates"] = (d.get("scenes_with_2_second_stage_pairs_and_3_leftover_estimates", 0)
                                                                              + (s2 >= 2 and fn - s1 >= 3))
        return d


class ManagerCorr(MatchCorr):
    """Same model, observed at PerceptionEvaluationManager.add_frame_result(...).object_results."""
    name = "manager_add_frame_result"
    shard = 40

    def cases(self, tier, rng):
        out = []
        k = 90 if tier == "quick" else 1200
        for i in range(k):
            n, m = (rng.randint(0, 3), rng.randint(0, 3)) if i % 6 == 0 else (rng.randint(1, 8), rng.randint(1, 8))
            dim = "2d" if i % 3 == 2 else "3d"           # every third scene: ROI objects through a detection2d / fp_validation2d / tracking2d evaluator
            c = gen_scene(rng, n, m, "contested" if rng.random() < 0.5 else "mixed", dim=dim, mode="CENTERDISTANCE", family="autoware")
            if i % 6 == 4:
                c = add_tie_block(rng, c)          # second-stage pairs with >= 3 left-over estimates and anti-diagonal ties
                m = len(c["gt"])
            labels = sorted({o["label"] for o in c["est"] + c["gt"] if o["label"] not in ("FP", "UNKNOWN")}) or ["CAR"]
            rng.shuffle(labels)
            if len(labels) > 1 and rng.random() < 0.3:
                labels.pop()                                  # a label that the manager filters out
            c["targets"] = labels
            pool = THR_DIST if dim == "3d" else [4.0, 5.0, 8.0, 10.0, 0.0, 1000.0, 12.0, 2.0]
            c["thresholds"] = None if rng.random() < 0.3 else [rng.choice(pool) for _ in labels]
            if rng.random() < 0.2:
                # ONE number for every target label, the falsy-but-valid 0 / 0.0 included (radius 0: nothing is matchable)
                c["thresholds"] = rng.choice([0.0, 0, 0.0, rng.choice(pool), rng.choice(pool)])
            for o in c["est"] + c["gt"]:
                if o["frame"] == "lidar_top":
                    o["frame"] = "map"
            c["via"] = "manager"
            c["tracking"] = (not c["fpv"]) and rng.random() < 0.3          # a tracking(2d) evaluator matches the same way
            if m and rng.random() < 0.25:
                # target uuids: only these ground truths (and FP-labelled ones) reach the matcher; afterwards results without ground truth are
                # dropped -- the observable is the matcher's output without its unpaired estimates, as in FP validation
                c["uuids"] = sorted(rng.sample(range(m), rng.randint(1, m)))
            # the evaluator is long-lived: 1-2 EARLIER frames (same frame name and time stamp, same uuids, other objects: the scene mirrored,
            # lists reversed, the first ground truth missing) go through the same manager first -- nothing of them may stick
            c["warm"] = rng.choice([0, 0, 1, 2])
            out.append(c)
        return out

    def coq_term(self, case, obs):
        if "error" in obs or obs["foreign"]:
            return "false"
        drop_unpaired = bool(case["fpv"]) or case.get("uuids") is not None
        return (f"(check_case {case['mode']} P_{case['policy']} {blit(drop_unpaired)} {facts_term(obs['facts'])} "
                f"{pairs_term(obs['pairs'])} {llit([bl(r) for r in obs['ok']])} {llit([bl(r) for r in obs['live']])})")

    def run_impl(self, case):
        return observe_manager(case)

    def nontrivial(self, case, obs):
        return "error" not in obs and any(g is not None for _, g in obs["pairs"])


class C01(Prop):
    id = "C01"
    props_file = "Props/C01.v"
    # redundant tie (core.gen_tie): these decision functions, translated from the source on every run, equal the hand model for all inputs
    gen_tie_theorems = ['GenTie_is_better_than_other_models', 'GenTie__get_matching_module', 'GenTie__get_fp_object_results', 'GenTie__get_score_table', 'GenTie_best_cell', 'GenTie_get_object_results', 'GenTie_get_object_results_outside', 'GenTie_get_object_results_facts']
    gen_files = []
    design_ref = "DESIGN.md section 4, C01"
    technique = ("Coq proof by induction over the matching loops of an executable Gallina model of get_object_results "
                 "(row-major arg-best over the remaining rows/columns, two stages, leftovers), tied to the real function by an "
                 "in-Coq correspondence on generated scenes")
    level_text = ("Theorems (Props/C01.v, closed under the global context) hold for ALL table sizes n, m and ALL score / label-compatibility "
                  "tables: estimate indices and ground-truth indices of the result are duplicate-free, every pair has a non-NaN score cell "
                  "(hence equal frame ids and, when a matchable threshold is configured for the ground truth's label, a score strictly "
                  "better than it), outside FP validation the estimates of the result are a permutation of the input estimates, all indices "
                  "are in range, FP validation yields no result without ground truth and [] when there is no ground truth. "
                  "The model is compared with get_object_results on every generated scene (index pairs, in order), together with the model's "
                  "is_matchable and NaN-cell tables against MatchingLabelPolicy.is_matchable / frame ids / is_better_than; a second "
                  "correspondence observes PerceptionEvaluationManager.add_frame_result(...).object_results on filtered 3D and 2D scenes "
                  "(detection / fp_validation / tracking evaluators and their 2d variants, with and without target uuids). Oracle: the matchable "
                  "table of the library's helpers (frame_id ==, get_label_threshold, is_better_than) is compared cell by cell with one recomputed "
                  "from the frames and labels the objects were built with and the radius at the index of the ground truth's label; every "
                  "estimate / ground truth is fingerprinted attribute by attribute before and after the call.")
    level_note = ("Trusted: Coq kernel+vm_compute; the hand-written model Model/Matching.v (tied by this run's correspondence); the matching "
                  "values themselves are read from the public matching classes (their geometric meaning is C06). Non-mutation of the "
                  "caller's lists is a runtime observation checked on every case, not a theorem.")
    rule = ("scenes with 0-16 estimates x 0-16 ground truths (thorough: 0-24) on the 1/8 lattice, 1-3 frame ids, 2-5 labels with duplicates, "
            "UNKNOWN / FP labels, contested GTs, exact ties, scores exactly on the radius; 4 modes x 3 policies x thresholds list|None x "
            "3D boxes | 2D ROIs x normal | FP validation; representations: three dataset names per label member (Label.name), keyword arguments "
            "left at their documented defaults (policy DEFAULT, mode CENTERDISTANCE, transforms None in ego-frame scenes, no target labels), a "
            "radius list without target labels; plus 3D (2/3) and 2D-ROI (1/3) scenes of 0-8 x 0-8 objects through a freshly configured "
            "PerceptionEvaluationManager (detection / fp_validation / tracking and the 2d tasks, configured policy and max_matchable_radii, "
            "25 % with target uuids: the uuid-selected ground truths reach the matcher and unpaired estimates are dropped afterwards; "
            "a fifth with ONE number as max_matchable_radii, mostly the falsy 0 / 0.0: the radius of every target label; half of the evaluators "
            "first evaluate 1-2 earlier frames of the same name / time stamp / uuids with other objects and another ego pose); "
            "a tenth of the lattice estimates near a ground truth sits 2^-27 m off the lattice (candidates closer than float32 resolution that "
            "are NOT tied); every eighth small / mid scene and every sixth manager scene carries an anti-diagonal tie block (3 ground truths of one label, 4 "
            "estimates of another: >= 3 left-over estimates in the second stage, score cells (i, j) = (i+1, j-1), a contested last ground truth); "
            "non-trivial = >= 2 estimates, >= 1 GT and at least one pair formed (manager: at least one pair formed)")
    assumptions = ["objects carry geometry (3D boxes or 2D ROIs); the ROI-less 2D dispatch is C11",
                   "matching values are finite floats (NaN/inf values are treated as NaN cells)"]
    not_proved = ["non-mutation of the caller's lists and objects (runtime observation on every generated case: list identity and a "
                  "per-attribute fingerprint of every estimate / ground truth)",
                  "the geometric meaning of the matching values (C06)"]

    def correspondences(self):
        return [MatchCorr(), ManagerCorr()]


READY = True
PROP = C01()
