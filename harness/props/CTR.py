"""temporary driver of TrackingPipelineCorr (to be wired into C05 by the main session)"""
from harness.lib.core import Prop
from harness.props import manager_common as MC
from harness.props.tracking_corr import TrackingPipelineCorr


class CTR(Prop):
    id = "CTR"
    props_file = "Props/C05Pipeline.v"

    def correspondences(self):
        return [TrackingPipelineCorr()]

    def cleanup(self):
        MC.cleanup_tmp(all_pids=True)


READY = False
PROP = CTR()
