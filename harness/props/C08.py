"""C08 -- loosening a matching threshold never loses a TP and never lowers AP."""
from harness.lib.core import Corr, Prop, blit, llit, olit, qlit
from harness.props import ap_common as A

HEADER = ("From Coq Require Import List Bool ZArith.\nFrom PE Require Import Base.CaseUtil Model.AP.\n"
          "Import ListNotations.\nOpen Scope Q_scope.\n")

DIST_T = [0.0, 0.125, 0.5, 0.625, 1.0, 1.25, 2.0, 2.5, 5.0, 10.0, 100.0]
IOU_T = [0.0, 0.1, 0.25, 1.0 / 3, 0.5, 0.75, 1.0]


def loosen(rng, mode, t):
    """a threshold at least as loose as t (possibly equal)"""
    pool = IOU_T if A.MAXIMIZE[mode] else DIST_T
    c = [x for x in pool if (x <= t if A.MAXIMIZE[mode] else x >= t)]
    return rng.choice(c)


def chunk_sizes(rng, n):
    """sizes of consecutive frames the flat result list is cut into (empty frames included)"""
    out, left = [], n
    while left > 0:
        k = rng.choice([0, 1, 1, 2, 3, 5])
        out.append(min(k, left))
        left -= out[-1]
    if rng.random() < 0.3:
        out.append(0)
    return out


def gen_extra_gts(rng, scene):
    matched = [r["gt"] for r in scene["results"] if r["gt"] is not None]
    key = lambda g: (g["label"], tuple(g["pos"]), g["yaw"])  # noqa: E731
    taken = {key(g) for g in matched}
    out = []
    for _ in range(rng.choice([0, 1, 1, 2, 2, 3])):
        r = rng.random()
        if r < 0.25 and matched:
            j = rng.randrange(len(matched))
            out.append(dict(matched[j], copy_of_matched=True))
        else:
            g = A.gen_spec(rng, label="false_positive" if r < 0.45 else rng.choice(A.LABELS[:3]))
            if key(g) in taken:
                continue
            out.append(g)
    return out


def thr_repr(thresholds, rep):
    if rep == "int":
        return [int(t) if float(t).is_integer() else t for t in thresholds]
    if rep == "np":
        import numpy as np

        return [np.float64(t) for t in thresholds]
    return list(thresholds)


def ap_supported(case):
    """Ap / Map need get_matching(mode) for every result (Ap._calculate_average_sd): 2D objects only have centre distance and IoU 2D"""
    return case["scene"].get("dim") != "2d" or case["mode"] in ("CENTERDISTANCE", "IOU2D")


class ThresholdPairCorr(Corr):
    name = "threshold_pairs"
    header = HEADER
    requires = ["Model/AP.vo"]
    shard = 100

    def cases(self, tier, rng):
        out = []
        n = 340 if tier == "quick" else 4000
        for i in range(n):
            mode = rng.choice(A.MODES)
            scene = A.gen_scene(rng, tie_heavy=(i % 7 == 0))
            if i % 3 == 0:  # property excludes false-positive-labelled ground truth: keep a stream without it
                for r in scene["results"]:
                    if r["gt"] is not None and r["gt"]["label"] == "false_positive":
                        r["gt"]["label"] = "car"
            k = rng.choice([1, 2, 3])
            targets = rng.sample(A.LABELS[:4], k)
            if i % 4 == 1:
                # one label, every estimate paired with an ordinary ground truth of that label, distinct confidences, headings all over the
                # circle and distances spread over the threshold grid: the rankings in which a result that becomes a TP only at the looser
                # threshold has a small heading weight (APH must still not drop)
                scene = A.gen_scene(rng, n=rng.randint(3, 9) if rng.random() < 0.5 else rng.randint(10, 16))     # half of them rank >= 10 results
                confs = rng.sample(range(1, 64), len(scene["results"]))
                for r, cf in zip(scene["results"], confs):
                    if r["gt"] is None:
                        r["gt"] = A.gen_spec(rng, label="car")
                    r["gt"]["label"] = "car"
                    d = rng.choice([0.0, 0.125, 0.5, 0.625, 1.0, 1.25, 2.0, 2.5, 5.0])
                    r["est"] = {"label": "car", "pos": [r["gt"]["pos"][0] + d, r["gt"]["pos"][1], r["gt"]["pos"][2]], "size": list(r["gt"]["size"]),
                                "yaw": rng.choice(A.YAWS), "conf": cf / 64}
                targets = ["car"]
            pool = IOU_T if A.MAXIMIZE[mode] else DIST_T
            t1 = [rng.choice(pool) for _ in targets]
            t2 = [loosen(rng, mode, t) for t in t1]
            if i % 8 == 3:
                # NUMERIC EDGE: a threshold of exactly 0 (falsy but valid) for one label, not necessarily the first: as the STRICT distance
                # threshold (nothing is closer than 0: no TP of that label) under a small looser one, or as the LOOSE IoU threshold
                j = rng.randrange(len(targets))
                if A.MAXIMIZE[mode]:
                    t1[j], t2[j] = rng.choice([0.0, 0.1, 0.25, 0.5]), 0.0
                else:
                    t1[j], t2[j] = 0.0, rng.choice([0.0, 0.125, 0.125, 0.5, 0.625])
            if i % 6 == 4 and scene["results"]:
                # ORDER: every result WITHOUT a ground truth is listed before the first result with one
                scene["results"].sort(key=lambda r: r["gt"] is not None)
            n_gt = sum(1 for r in scene["results"] if r["gt"] is not None) + rng.randint(0, 2)
            case = {"scene": scene, "mode": mode, "targets": targets, "t_strict": t1, "t_loose": t2, "num_gt": n_gt}
            # scene level: the same results handed to Ap as the nested list get_scene_result builds ([[], frame 1, frame 2, ...])
            if i % 2 == 1:
                case["nested"] = chunk_sizes(rng, len(scene["results"]))
            # ground truths NO estimate was paired with (the second loop of get_negative_objects): fresh ones, copies of a matched one
            # (equal state: DynamicObject.__eq__), FP-labelled ones
            if i % 3 != 2:
                case["extra_gts"] = gen_extra_gts(rng, scene)
            # 2D objects (integer ROIs): IOU3D / plane distance do not exist for them (get_matching(mode) is None -> label correctness decides)
            if i % 5 == 2:
                case["scene"] = dict(scene, dim="2d")
            # representation of the thresholds: Python floats / ints where integral / numpy float64
            case["thr_rep"] = ["float", "int", "np"][i % 3] if i % 2 == 0 else "float"
            out.append(case)
        return out

    def _one(self, case, results, thresholds, extra=()):
        from perception_eval.evaluation.matching.object_matching import MatchingMode
        from perception_eval.evaluation.matching.objects_filter import get_negative_objects, get_positive_objects
        from perception_eval.evaluation.metrics.detection.ap import Ap
        from perception_eval.evaluation.metrics.detection.tp_metrics import TPMetricsAp, TPMetricsAph

        mm = MatchingMode[case["mode"]]
        tl = [A.label_enum(x) for x in case["targets"]]
        two_d = case["scene"].get("dim") == "2d"
        thresholds = thr_repr(thresholds, case.get("thr_rep", "float"))
        o = {}
        for nm, tpm in (("ap", TPMetricsAp()), ("aph", TPMetricsAph())):
            if two_d and nm == "aph":
                continue                    # no heading on 2D objects (Map skips APH: is_detection_2d)
            fs = A.facts(case["scene"], results, case["mode"], case["targets"], thresholds, tpm)
            for f in fs:
                f["thr"] = None if f["thr"] is None else float(f["thr"])
            o[nm] = {"facts": fs}
            if not ap_supported(case):
                continue
            flat = list(results)
            ap = Ap(tp_metrics=tpm, object_results=flat, num_ground_truth=case["num_gt"], target_labels=tl,
                    matching_mode=mm, matching_threshold_list=thresholds)
            ids = {id(r): i for i, r in enumerate(results)}
            o[nm].update({"tp_list": [float(x) for x in ap.tp_list], "fp_list": [float(x) for x in ap.fp_list],
                          "ap": A.inf_to_none(ap.ap), "order": [ids[id(r)] for r in flat]})
            if case.get("nested") is not None:
                # scene level (oracle only): [[]] + the frames, as PerceptionEvaluationManager.get_scene_result pools them
                nested, k = [[]], 0
                for sz in case["nested"]:
                    nested.append(list(results[k:k + sz]))
                    k += sz
                ap2 = Ap(tp_metrics=tpm, object_results=nested, num_ground_truth=case["num_gt"], target_labels=tl,
                         matching_mode=mm, matching_threshold_list=thresholds)
                o[nm]["nested"] = {"tp_list": [float(x) for x in ap2.tp_list], "ap": A.inf_to_none(ap2.ap), "n": ap2.objects_results_num}
        if ap_supported(case):
            # mAP / mAPH as Map computes them from the per-label buckets (the clause "and mAP")
            from perception_eval.evaluation.matching.objects_filter import divide_objects, divide_objects_to_num
            from perception_eval.evaluation.metrics.detection.map import Map

            gts_all = [r.ground_truth_object for r in results if r.ground_truth_object is not None]
            nums = divide_objects_to_num(gts_all, tl)
            mp = Map(object_results_dict=divide_objects(list(results), tl), num_ground_truth_dict=nums, target_labels=tl, matching_mode=mm,
                     matching_threshold_list=thresholds, **({"is_detection_2d": True} if two_d else {}))
            o["map"], o["maph"] = A.inf_to_none(mp.map), A.inf_to_none(mp.maph)
            o["label_aps"] = [A.inf_to_none(a.ap) for a in mp.aps]
            if not two_d and len(tl) >= 1:
                # the public entry point one level up: the same per-label thresholds handed to the metrics configuration (one value per
                # target label) must reach the metrics as given -- loosening a configuration loosens exactly these numbers
                from perception_eval.common.evaluation_task import EvaluationTask
                from perception_eval.evaluation.metrics.metrics_score_config import MetricsScoreConfig

                key = {"CENTERDISTANCE": "center_distance_thresholds", "PLANEDISTANCE": "plane_distance_thresholds",
                       "IOU2D": "iou_2d_thresholds", "IOU3D": "iou_3d_thresholds"}[case["mode"]]
                try:
                    mc = MetricsScoreConfig(EvaluationTask.DETECTION, target_labels=list(tl), **{key: list(thresholds)})
                    o["config_thresholds"] = [[float(x) for x in row] for row in getattr(mc.detection_config, key)]
                except Exception as e:  # noqa: BLE001
                    o["config_thresholds"] = f"{type(e).__name__}: {e}"
        tp, fp = get_positive_objects(list(results), tl, mm, thresholds)
        gts = [r.ground_truth_object for r in results if r.ground_truth_object is not None] + list(extra)
        tn, fn = get_negative_objects(gts, list(results), tl, mm, thresholds)
        tp_ids = {id(r) for r in tp}
        fn_ids = {id(g) for g in fn}
        tn_ids = {id(g) for g in tn}
        o["tp_flags"] = [id(r) in tp_ids for r in results]
        o["fn_flags"] = [r.ground_truth_object is not None and id(r.ground_truth_object) in fn_ids for r in results]
        o["n_tp"], o["n_fp"], o["n_fn"], o["n_tn"] = len(tp), len(fp), len(fn), len(tn)
        o["extra_fn"] = [id(g) in fn_ids for g in extra]
        o["extra_tn"] = [id(g) in tn_ids for g in extra]
        return o

    def run_impl(self, case):
        results = A.make_results(case["scene"])
        # the same result objects are first judged under ANOTHER matching mode with numerically equal thresholds (a manager evaluates
        # every frame under all four modes): the judgement under the case's mode must not depend on that earlier call
        other = {"CENTERDISTANCE": "IOU2D", "PLANEDISTANCE": "IOU3D", "IOU2D": "PLANEDISTANCE", "IOU3D": "CENTERDISTANCE"}[case["mode"]]
        for thr in (case["t_loose"], case["t_strict"]):
            if not A.MAXIMIZE[other] or all(0.0 <= t <= 1.0 for t in thr):      # IoU thresholds outside [0,1] are rejected by an assertion
                self._one(dict(case, mode=other), results, thr)
        extra = [A.make_object(g, f"x{j}", case["scene"].get("dim", "3d")) for j, g in enumerate(case.get("extra_gts", []))]
        try:
            out = {"strict": self._one(case, results, case["t_strict"], extra), "loose": self._one(case, results, case["t_loose"], extra)}
            if not A.MAXIMIZE[case["mode"]] and case["scene"].get("dim", "3d") == "3d":
                # the loosest distance threshold there is: float("inf") (round 5 of DESIGN section 9).  It has no rational counterpart, so this
                # third judgement is compared with the loose one by the Python oracle only (monotonicity), not by the model
                try:
                    inf = self._one(case, results, [float("inf")] * len(case["t_loose"]), extra)
                    out["inf"] = {"tp_flags": inf["tp_flags"], "fn_flags": inf["fn_flags"], "n_tp": inf["n_tp"], "n_fn": inf["n_fn"],
                                  "ap": (inf.get("ap") or {}).get("ap"), "aph": (inf.get("aph") or {}).get("ap")}
                except Exception as e:      # noqa: BLE001
                    out["inf"] = {"error": f"{type(e).__name__}: {e}"[:200]}
            return out
        except AssertionError as e:
            # every generated threshold is valid for the case's mode (distances >= 0, IoU in [0, 1]): a rejection is reported by the oracle
            return {"error": f"AssertionError: {e}"}

    def coq_term(self, case, obs):
        if "error" in obs:
            return "false"
        m = A.mode_lit(case["mode"])
        parts = []
        for side in ("strict", "loose"):
            o = obs[side]
            for nm in ("ap", "aph"):
                x = o.get(nm)
                if x is None or "tp_list" not in x:
                    continue
                rs = llit([A.res_lit(f) for f in x["facts"]])
                parts.append(f"check_ap {m} {case['num_gt']} {rs} {llit([qlit(v) for v in x['tp_list']])} "
                             f"{llit([qlit(v) for v in x['fp_list']])} {olit(x['ap'], qlit)} {llit([str(i) + '%nat' for i in x['order']])}")
            rs = llit([A.res_lit(f) for f in o["ap"]["facts"]])
            parts.append(f"check_status {m} {rs} {llit([blit(b) for b in o['tp_flags']])} {llit([blit(b) for b in o['fn_flags']])}")
        return "(" + " && ".join(parts) + ")%bool"

    def coq_debug(self, case, obs):
        if "error" in obs:
            return "tt"
        rs = llit([A.res_lit(f) for f in obs["strict"]["ap"]["facts"]])
        return f"(map (positive_tp {A.mode_lit(case['mode'])}) {rs}, map (matched_fn {A.mode_lit(case['mode'])}) {rs})"

    def oracle(self, case, obs):
        if "error" in obs:
            return (f"judging {'2D' if case['scene'].get('dim') == '2d' else '3D'} results under {case['mode']} with the valid thresholds "
                    f"{case['t_strict']} / {case['t_loose']} raises {obs['error']}")
        s, l = obs["strict"], obs["loose"]
        for side, o, thr in (("strict", s, case["t_strict"]), ("loose", l, case["t_loose"])):
            ct = o.get("config_thresholds")
            if ct is not None and len(thr) >= 2 and ct != [[float(x) for x in thr]]:
                return (f"the metrics configuration given the per-label thresholds {thr} ({case['mode']}) hands the metrics {ct}: "
                        f"the {side} thresholds are not the ones configured")
        fs = s["ap"]["facts"]
        # the property speaks about ordinary (non false-positive-labelled) ground truth
        has_fp_gt = any(f["gt_fp"] for f in fs)
        u = obs.get("inf")
        if u is not None:
            if "error" in u:
                return f"judging the results under {case['mode']} with the threshold float('inf') raises {u['error']}"
            for i, f in enumerate(fs):
                if f["gt_fp"]:
                    continue
                if l["tp_flags"][i] and not u["tp_flags"][i]:
                    return f"result {i} is a TP at thresholds {case['t_loose']} but not at the loosest threshold float('inf') ({case['mode']})"
                if u["fn_flags"][i] and not l["fn_flags"][i]:
                    return f"ground truth of result {i} is an FN at the threshold float('inf') but not at {case['t_loose']} ({case['mode']})"
            if not has_fp_gt:
                if u["n_tp"] < l["n_tp"] or u["n_fn"] > l["n_fn"]:
                    return f"TP / FN counts go from {l['n_tp']} / {l['n_fn']} to {u['n_tp']} / {u['n_fn']} when loosening {case['t_loose']} -> float('inf')"
                for nm in ("ap", "aph"):
                    a, b = (l.get(nm) or {}).get("ap"), u.get(nm)
                    if a is not None and b is not None and b < a - 1e-9:
                        return f"{nm} drops from {a} to {b} when loosening {case['t_loose']} -> float('inf') ({case['mode']})"
        for i, f in enumerate(fs):
            if f["gt_fp"]:
                continue
            if s["tp_flags"][i] and not l["tp_flags"][i]:
                return f"result {i} is a TP at thresholds {case['t_strict']} but not at the looser {case['t_loose']}"
            if l["fn_flags"][i] and not s["fn_flags"][i]:
                return f"ground truth of result {i} is an FN at the looser thresholds {case['t_loose']} but not at {case['t_strict']}"
        # ground truths no estimate was paired with (documentation of get_negative_objects: not contained in the object results -> TN when
        # FP-labelled, FN otherwise) -- at EVERY threshold, so they can never make the FN count rise
        for j, g in enumerate(case.get("extra_gts", [])):
            if g.get("copy_of_matched"):
                continue                    # equal in state to a matched ground truth: C03's distinct-keys assumption, not judged here
            for side, o in (("strict", s), ("loose", l)):
                if g["label"] == "false_positive":
                    if not o["extra_tn"][j] or o["extra_fn"][j]:
                        return f"unmatched FP-labelled ground truth {j} is not a TN at the {side} thresholds (TN={o['extra_tn'][j]}, FN={o['extra_fn'][j]})"
                elif not o["extra_fn"][j] or o["extra_tn"][j]:
                    return (f"unmatched ordinary ground truth {j} ({g['label']}) is not an FN at the {side} thresholds "
                            f"{case['t_strict'] if side == 'strict' else case['t_loose']} (FN={o['extra_fn'][j]}, TN={o['extra_tn'][j]})")
        # scene level: the nested list [[], frame 1, ...] pools the same results in the same order -> the same TP list and AP
        for side, o in (("strict", s), ("loose", l)):
            for nm in ("ap", "aph"):
                x = o.get(nm)
                if x is None or "nested" not in x:
                    continue
                nst = x["nested"]
                if nst["n"] != len(fs) or nst["tp_list"] != x["tp_list"]:
                    return (f"{nm} at the {side} thresholds: the flat result list gives cumulative TP {x['tp_list']} but the same results as nested "
                            f"per-frame lists [[]] + {case['nested']} give {nst['tp_list']} over {nst['n']} results")
                if (nst["ap"] is None) != (x["ap"] is None) or (x["ap"] is not None and abs(nst["ap"] - x["ap"]) > 1e-12):
                    return f"{nm} at the {side} thresholds: {x['ap']} from the flat list but {nst['ap']} from the nested per-frame lists"
        if has_fp_gt:
            return None
        if s["n_tp"] > l["n_tp"]:
            return f"TP count drops from {s['n_tp']} to {l['n_tp']} when loosening {case['t_strict']} -> {case['t_loose']}"
        if s["n_fn"] < l["n_fn"]:
            return f"FN count rises from {s['n_fn']} to {l['n_fn']} when loosening {case['t_strict']} -> {case['t_loose']}"
        for nm in ("ap", "aph"):
            if nm not in s or "tp_list" not in s[nm]:
                continue
            a, b = s[nm]["ap"], l[nm]["ap"]
            if (a is None) != (b is None):
                return f"{nm} definedness depends on the threshold ({a} vs {b})"
            if a is not None and b < a - 1e-9:
                return f"{nm} drops from {a} to {b} when loosening {case['t_strict']} -> {case['t_loose']}"
            if "nested" in s[nm]:
                a, b = s[nm]["nested"]["ap"], l[nm]["nested"]["ap"]
                if (a is None) != (b is None) or (a is not None and b < a - 1e-9):
                    return f"scene-level {nm} (nested per-frame lists) goes from {a} to {b} when loosening {case['t_strict']} -> {case['t_loose']}"
        for nm in ("map", "maph"):
            if nm not in s:
                continue
            a, b = s[nm], l[nm]
            if (a is None) != (b is None):
                return f"{nm} definedness depends on the threshold ({a} vs {b})"
            if a is not None and b < a - 1e-9:
                return f"{nm} drops from {a} to {b} when loosening {case['t_strict']} -> {case['t_loose']} (per-label APs {s['label_aps']} -> {l['label_aps']})"
        return None

    def nontrivial(self, case, obs):
        if "error" in obs:
            return False
        return obs["strict"]["tp_flags"] != obs["loose"]["tp_flags"] or obs["strict"]["ap"].get("ap") != obs["loose"]["ap"].get("ap")

    def describe(self, case, obs):
        if "error" in obs:
            return {"case": {k: v for k, v in case.items() if k != "scene"}, "observed": obs}
        return {"case": {k: v for k, v in case.items() if k != "scene"}, "n_results": len(case["scene"]["results"]),
                "observed": {side: {"ap": obs[side]["ap"].get("ap"), "aph": obs[side].get("aph", {}).get("ap"), "n_tp": obs[side]["n_tp"], "n_fn": obs[side]["n_fn"]}
                             for side in ("strict", "loose")}}

    def distribution(self, cases, obs):
        d = {"equal_thresholds": 0, "tp_set_changed": 0, "ap_changed": 0, "with_fp_label_gt": 0, "modes": {},
             "scene_level_nested_input": 0, "unmatched_extra_gt": {"ordinary": 0, "fp_labelled": 0, "copy_of_a_matched_gt": 0}, "fn_count_changed": 0,
             "objects_2d": 0, "objects_2d_mode_without_matching_score": 0, "threshold_representation": {}, "int_typed_thresholds": 0,
             "strict_distance_threshold_exactly_0": 0, "loose_iou_threshold_exactly_0": 0, "results_of_a_label_whose_strict_distance_threshold_is_0": 0,
             "cases_ranking_10_or_more_results": 0, "max_results": 0, "every_gtless_result_listed_before_the_first_result_with_gt": 0}
        for c, o in zip(cases, obs):
            if "strict" not in o:
                continue
            d["equal_thresholds"] += c["t_strict"] == c["t_loose"]
            mx = A.MAXIMIZE[c["mode"]]
            d["strict_distance_threshold_exactly_0"] += (not mx) and 0.0 in c["t_strict"]
            d["loose_iou_threshold_exactly_0"] += mx and 0.0 in c["t_loose"]
            if not mx:
                d["results_of_a_label_whose_strict_distance_threshold_is_0"] += sum(1 for f in o["strict"]["ap"]["facts"] if f["thr"] == 0 and f["has_gt"] and not f["gt_fp"])
            nres = len(c["scene"]["results"])
            d["cases_ranking_10_or_more_results"] += nres >= 10
            d["max_results"] = max(d["max_results"], nres)
            gl = [r["gt"] is None for r in c["scene"]["results"]]
            d["every_gtless_result_listed_before_the_first_result_with_gt"] += any(gl) and not all(gl) and gl == sorted(gl, reverse=True)
            d["tp_set_changed"] += o["strict"]["tp_flags"] != o["loose"]["tp_flags"]
            d["ap_changed"] += o["strict"]["ap"].get("ap") != o["loose"]["ap"].get("ap")
            d["scene_level_nested_input"] += c.get("nested") is not None and ap_supported(c)
            for g in c.get("extra_gts", []):
                k = "copy_of_a_matched_gt" if g.get("copy_of_matched") else "fp_labelled" if g["label"] == "false_positive" else "ordinary"
                d["unmatched_extra_gt"][k] += 1
            d["fn_count_changed"] += o["strict"]["n_fn"] != o["loose"]["n_fn"]
            d["objects_2d"] += c["scene"].get("dim") == "2d"
            d["objects_2d_mode_without_matching_score"] += not ap_supported(c)
            rep = c.get("thr_rep", "float")
            d["threshold_representation"][rep] = d["threshold_representation"].get(rep, 0) + 1
            d["int_typed_thresholds"] += rep == "int" and any(float(t).is_integer() for t in c["t_strict"] + c["t_loose"])
            d["with_fp_label_gt"] += any(f["gt_fp"] for f in o["strict"]["ap"]["facts"])
            d["modes"][c["mode"]] = d["modes"].get(c["mode"], 0) + 1
        return d


class C08(Prop):
    id = "C08"
    props_file = "Props/C08.v"
    # redundant tie (core.gen_tie): these decision functions, translated from the source on every run, equal the hand model for all inputs
    gen_tie_theorems = ['GenTie_CenterDistanceMatching_is_better_than', 'GenTie_PlaneDistanceMatching_is_better_than', 'GenTie_IOU2dMatching_is_better_than', 'GenTie_IOU3dMatching_is_better_than', 'GenTie_is_better_than_preconditions', 'GenTie_is_result_correct', 'GenTie_interpolate_precision_recall_list', 'GenTie__calculate_ap', 'GenTie_get_precision_recall_list', 'GenTie_get_positive_objects', 'GenTie_get_negative_objects', 'GenTieSrc_C08_is_better_than_monotone']
    extra_props_files = ["Props/Pipeline.v"]     # the composed frame pipeline (C01 -> C10 -> C03 -> C04; C08 on it)
    design_ref = "DESIGN.md section 4, C08"
    technique = "Rocq proof (monotonicity of the interpolated area via Abel summation; case analysis of is_result_correct) on the C04 model; in-Coq correspondence at threshold pairs"
    level_text = ("Theorems (Props/C08.v, closed under the global context), for ALL result sets, thresholds and rankings: is_better_than and "
                  "is_result_correct are monotone in the threshold for ordinary ground truth; a TP stays a TP, a matched FN at the looser threshold "
                  "was one at the stricter, TP counts never drop; AP/APH (any TP weights in [0,1]) and mAP never drop because the ranking does not "
                  "depend on the threshold and the area is monotone in pointwise larger cumulative TP (Abel summation). The model is tied to the real "
                  "Ap / Map / get_positive_objects / get_negative_objects at ordered threshold pairs (including equal pairs and scores exactly on a threshold), on flat and "
                  "scene-level nested result lists, 3D boxes and 2D ROIs, with unmatched ground truths present and int / numpy-typed thresholds (those four are oracle-side observations).")
    level_note = ("Trusted: Coq kernel+vm_compute; correspondence harness; binary64 rounding (1e-9); per-pair facts read from the real objects. "
                  "FN *counts* additionally need that unmatched ground truths are FN at every threshold (list bookkeeping of get_negative_objects, C03).")
    rule = ("random scenes (0-14 results, k/8 lattice, ties, unknown / FP-labelled GT in 2/3 of the cases) x matching mode x 1-3 target labels x an ordered "
            "pair of per-label thresholds from a fixed grid (incl. equal and score-equal-threshold); non-trivial = TP set or AP differs between the two; "
            "every 2nd case also hands the results to Ap as the scene-level nested list [[]] + per-frame chunks (empty frames included) and requires the flat TP list / AP and monotonicity there; "
            "2/3 of the cases add 0-3 ground truths no estimate was paired with (fresh ordinary ones: FN at both thresholds; FP-labelled: TN at both; copies of a matched ground truth: counted only) to get_negative_objects; "
            "every 5th case uses 2D objects with integer ROIs (no APH; under PLANEDISTANCE / IOU3D there is no score and only the TP/FN status is compared); "
            "thresholds are passed as Python floats, ints where integral, or numpy float64 in turn; "
            "every 8th case forces a threshold of EXACTLY 0 for one label (any position in the per-label list): the strict distance threshold under a small looser one, or the loose IoU threshold; "
            "half of the one-label heading stream ranks 10-16 results (the general stream 0-14); every 6th case lists every result without ground truth before the first result with one")
    assumptions = ["scores compared within 1e-9", "facts read through public getters of the real objects"]
    not_proved = ["list bookkeeping of get_negative_objects for unmatched ground truths (C03)", "binary64 rounding"]

    def correspondences(self):
        return [ThresholdPairCorr()]

    def search(self, rng, budget_s):
        """after a broken tie: (1) a dense sweep that drives the implementation's own precision/recall/area functions
        (Ap.get_precision_recall_list, Ap._calculate_ap) with synthetic cumulative-TP lists of the family in which monotonicity is most
        fragile -- one label, every estimate on an ordinary ground truth, each result TP always / only at the looser threshold / never,
        heading weights all over [0,1] -- every hit is then rebuilt from real objects and confirmed through the public path (run_impl +
        oracle); (2) the generic thorough stream"""
        import math
        import time

        import numpy as np
        from harness.lib.core import safe_run
        from perception_eval.evaluation.matching.object_matching import MatchingMode
        from perception_eval.evaluation.metrics.detection.ap import Ap
        from perception_eval.evaluation.metrics.detection.tp_metrics import TPMetricsAph

        t0 = time.time()
        c = ThresholdPairCorr()
        try:
            probe = Ap(tp_metrics=TPMetricsAph(), object_results=[], num_ground_truth=1, target_labels=[A.label_enum("car")],
                       matching_mode=MatchingMode.CENTERDISTANCE, matching_threshold_list=[1.0])

            def area(ws, ngt):
                probe.tp_list = np.cumsum(ws).tolist()
                probe.num_ground_truth = ngt
                pr, rc = probe.get_precision_recall_list()
                return probe._calculate_ap(pr, rc)
        except Exception:
            area = None

        def weight(a, b):
            d = abs(a - b) % (2 * math.pi)
            return 1.0 - min(d, 2 * math.pi - d) / math.pi
        while area is not None and time.time() - t0 < 0.5 * budget_s:
            n = rng.randint(3, 7)
            cls = [rng.choice("AALLN") for _ in range(n)]
            yaws = [(rng.choice(A.YAWS), rng.choice(A.YAWS)) for _ in range(n)]
            ws = [weight(a, b) for a, b in yaws]
            ngt = n + rng.choice([0, 0, 1])
            try:
                strict = area([w if k == "A" else 0.0 for w, k in zip(ws, cls)], ngt)
                loose = area([w if k in "AL" else 0.0 for w, k in zip(ws, cls)], ngt)
            except Exception:
                break
            if loose < strict - 1e-9:
                results = []
                for i, ((ye, yg), k) in enumerate(zip(yaws, cls)):
                    gt = {"label": "car", "pos": [16.0 * i - 40.0, 8.0, 0.0], "size": [2.0, 4.0, 1.5], "yaw": yg}
                    d = {"A": 0.125, "L": 1.0, "N": 5.0}[k]
                    results.append({"est": {"label": "car", "pos": [gt["pos"][0] + d, 8.0, 0.0], "size": [2.0, 4.0, 1.5], "yaw": ye, "conf": (63 - i) / 64},
                                    "gt": gt})
                case = {"scene": {"policy": "DEFAULT", "results": results}, "mode": "CENTERDISTANCE", "targets": ["car"],
                        "t_strict": [0.5], "t_loose": [2.0], "num_gt": ngt}
                obs = safe_run(c, case)
                if isinstance(obs, dict) and "__harness_exception__" not in obs:
                    msg = c.oracle(case, obs)
                    if msg:
                        return c, case, obs, msg
        return super().search(rng, max(1.0, budget_s - (time.time() - t0)))


READY = True
PROP = C08()
