"""C20 -- configuration strings parse to the enum member they name."""
import random
import string

from harness.lib.core import Corr, Prop, slit

# documented acceptance rule per parser (independent of the Coq model): exact | anycase
PARSERS = {
    "EvaluationTask.from_value": ("EvaluationTask", "EvaluationTask_from_value", "exact", "raise"),
    "set_task": ("EvaluationTask", "set_task", "exact", "raise"),
    "FrameID.from_value": ("FrameID", "FrameID_from_value", "anycase", "raise"),
    "Visibility.from_value": ("Visibility", "Visibility_from_value", "exact", "alias"),
    "SensorModality.from_value": ("SensorModality", "SensorModality_from_value", "exact", "raise"),
    "ShapeType.from_value": ("ShapeType", "ShapeType_from_value", "exact", "raise"),
    "MatchingLabelPolicy.from_str": ("MatchingLabelPolicy", "MatchingLabelPolicy_from_str", "anycase", "raise"),
    "Shape(shape_type)": ("ShapeType", "ShapeType_from_value", "exact", "raise"),
    "TransformKey(src)": ("FrameID", "FrameID_from_value", "anycase", "raise"),
}
DOC_ALIASES = {"v0-40": "NONE", "v40-60": "PARTIAL", "v60-80": "MOST", "v80-100": "FULL"}
DOC_ALIAS_DEFAULT = "UNAVAILABLE"

# The configuration vocabulary (member name -> string value) as documented in the enums' docstrings / docs/en/*/design.md and written in
# scenario files.  The generator, the oracle's `expected` and the member-table check read THIS table, not the running enums, so that a
# member that disappears or changes its value is not followed silently by all three sides.  (Members added later are not an error.)
DOC_TABLES = {
    "EvaluationTask": {"DETECTION": "detection", "TRACKING": "tracking", "PREDICTION": "prediction", "SENSING": "sensing",
                       "DETECTION2D": "detection2d", "TRACKING2D": "tracking2d", "CLASSIFICATION2D": "classification2d",
                       "FP_VALIDATION": "fp_validation", "FP_VALIDATION2D": "fp_validation2d"},
    "FrameID": {"BASE_LINK": "base_link", "MAP": "map", "LIDAR_CONCAT": "lidar_concat", "LIDAR_TOP": "lidar_top",
                "RADAR_FRONT": "radar_front", "RADAR_FRONT_RIGHT": "radar_front_right", "RADAR_FRONT_LEFT": "radar_front_left",
                "RADAR_BACK": "RADAR_BACK", "RADAR_BACK_RIGHT": "radar_back_right", "RADAR_BACK_LEFT": "radar_back_left",
                "CAM_FRONT": "cam_front", "CAM_FRONT_RIGHT": "cam_front_right", "CAM_FRONT_LEFT": "cam_front_left",
                "CAM_FRONT_LOWER": "cam_front_lower", "CAM_BACK": "cam_back", "CAM_BACK_LEFT": "cam_back_left",
                "CAM_BACK_RIGHT": "cam_back_right", "CAM_TRAFFIC_LIGHT_NEAR": "cam_traffic_light_near",
                "CAM_TRAFFIC_LIGHT_FAR": "cam_traffic_light_far", "CAM_TRAFFIC_LIGHT": "cam_traffic_light"},
    "Visibility": {"FULL": "full", "MOST": "most", "PARTIAL": "partial", "NONE": "none", "UNAVAILABLE": "not available"},
    "SensorModality": {"LIDAR": "lidar", "CAMERA": "camera", "RADAR": "radar"},
    "ShapeType": {"BOUNDING_BOX": "bounding_box", "POLYGON": "polygon"},
    "MatchingLabelPolicy": {"DEFAULT": "DEFAULT", "ALLOW_UNKNOWN": "ALLOW_UNKNOWN", "ALLOW_ANY": "ALLOW_ANY"},
}
# enums whose printed form str(member) is documented to be the member's value (a __str__ returning self.value)
PRINTS_VALUE = ("EvaluationTask", "FrameID", "Visibility", "SensorModality", "ShapeType")
# further string-accepting call sites, judged by the oracle only (no parser shape in the model): site -> enum of its argument
ORACLE_ONLY = {"set_task_lists": "EvaluationTask", "set_task_dict": "EvaluationTask", "FrameID.from_task": "EvaluationTask"}
FROM_TASK_DOC = {"DETECTION": "BASE_LINK", "SENSING": "BASE_LINK", "TRACKING": "MAP", "PREDICTION": "MAP"}    # documented; 2D tasks: ValueError
MEMBERS = "<members>"
# strings outside ASCII that no rule of the documentation turns into a member spelling (fullwidth letters, accents, long s, dotless i,
# no-break space).  NOT among them: the Kelvin sign U+212A, which str.lower() folds to "k" (see the final report: FrameID.from_value
# accepts "base_lin\u212a").
NON_ASCII = ["\uff4d\uff41\uff50", "d\u00e9tection", "map\u00a0", "\u017fen\u017fing", "l\u0131dar", "LIDAR\u0130", "\u00e7ar", "full\u200b",
             "\u0131", "bounding_box\u00a0", "DEFAULT\u00a0", "\u0434\u0435\u0442\u0435\u043a\u0446\u0438\u044f"]


def _impl():
    from perception_eval.common.evaluation_task import EvaluationTask, set_task
    from perception_eval.common.schema import FrameID, SensorModality, Visibility
    from perception_eval.common.shape import Shape, ShapeType
    from perception_eval.common.transform import TransformKey
    from perception_eval.evaluation.matching.object_matching import MatchingLabelPolicy

    enums = {"EvaluationTask": EvaluationTask, "FrameID": FrameID, "Visibility": Visibility,
             "SensorModality": SensorModality, "ShapeType": ShapeType, "MatchingLabelPolicy": MatchingLabelPolicy}
    fns = {
        "EvaluationTask.from_value": EvaluationTask.from_value,
        "set_task": set_task,
        "FrameID.from_value": FrameID.from_value,
        "Visibility.from_value": Visibility.from_value,
        "SensorModality.from_value": SensorModality.from_value,
        "ShapeType.from_value": ShapeType.from_value,
        "MatchingLabelPolicy.from_str": MatchingLabelPolicy.from_str,
        "Shape(shape_type)": lambda s: Shape(s, (1.0, 2.0, 3.0), footprint=_fp()).type,
        "TransformKey(src)": lambda s: TransformKey(s, "map").src,
    }
    return enums, fns


def _oracle_only_site(site, s):
    """Observation of one oracle-only call site on the string s: what the string spelling gives and, when the string is a documented value,
    what the enum spelling gives."""
    from perception_eval.common.evaluation_task import EvaluationTask, set_task_dict, set_task_lists
    from perception_eval.common.schema import FrameID

    def show(r):
        if isinstance(r, list):
            return {"kind": "list", "items": [classify(EvaluationTask, x) for x in r]}
        if isinstance(r, dict):
            return {"kind": "dict", "items": [[classify(EvaluationTask, k), v] for k, v in r.items()]}
        return classify(FrameID, r)

    def call(f):
        try:
            return show(f())
        except (ValueError, AssertionError, KeyError, TypeError) as e:
            return {"kind": "raises", "type": type(e).__name__, "msg": str(e)[:80]}

    out = {}
    if site == "set_task_lists":
        out["str"] = call(lambda: set_task_lists([s]))
        out["twice"] = call(lambda: set_task_lists([s, "detection", s]))
    elif site == "set_task_dict":
        out["str"] = call(lambda: set_task_dict({s: {"foo": 1}}))
    else:
        out["str"] = call(lambda: FrameID.from_task(s))
        member = [m for m in EvaluationTask if DOC_TABLES["EvaluationTask"].get(m.name) == s]
        if member:
            out["enum"] = call(lambda: FrameID.from_task(member[0]))
    return out


def _fp():
    from shapely.geometry import Polygon

    return Polygon([(1.0, 0.5, 0.0), (-1.0, 0.5, 0.0), (-1.0, -0.5, 0.0), (1.0, -0.5, 0.0)])


def classify(enum_cls, r):
    import enum as _enum

    if r is None:
        return {"kind": "none"}
    if isinstance(r, _enum.Enum):
        if type(r) is not enum_cls:
            return {"kind": "foreign-member", "repr": repr(r)}
        return {"kind": "member", "key": r.name}
    if isinstance(r, str):
        return {"kind": "str", "value": r}
    return {"kind": "other", "repr": repr(r)}


def case_variants(v, rng):
    out = {v, v.upper(), v.lower(), v.title(), v.swapcase()}
    out.add("".join(c.upper() if rng.random() < 0.5 else c.lower() for c in v))
    return sorted(out)


class ParserCorr(Corr):
    name = "parsers"
    header = ("From Coq Require Import String List Bool.\nFrom PE Require Import Base.CaseUtil Base.StrUtil Model.EnumParse Gen.Enums.\n"
              "Import ListNotations.\nOpen Scope string_scope.\nOpen Scope bool_scope.\n")
    requires = ["Gen/Enums.vo", "Base/CaseUtil.vo"]

    def cases(self, tier, rng):
        n_rand = 150 if tier == "quick" else 1500
        out = []
        # the documented member table of every enum against the running one
        for ename in DOC_TABLES:
            out.append({"parser": MEMBERS, "enum": ename})
        for pname, (ename, _, _, _) in PARSERS.items():
            vals = list(DOC_TABLES[ename].values())
            keys = list(DOC_TABLES[ename])
            # the PRINTED form str(member) of every member (computed on the implementation) parses back to the member
            if ename in PRINTS_VALUE:
                for k in keys:
                    out.append({"parser": pname, "printed": k})
            seen = set(NON_ASCII)
            for v in vals + keys:
                for s in case_variants(v, rng):
                    seen.add(s)
                # near misses
                seen.update({v + " ", " " + v, v[:-1], v + "x", v.replace("_", "-"), v.replace("_", "")})
                # characters outside ASCII whose UPPER-casing (not their lower-casing) collapses to ASCII letters: long s, dotless i, the
                # ffi / st ligatures, sharp s -- no documented rule makes these a spelling of the member (round 5 of DESIGN section 9)
                for a, b in (("s", "\u017f"), ("i", "\u0131"), ("ffi", "\ufb03"), ("st", "\ufb06"), ("ss", "\u00df"), ("fi", "\ufb01")):
                    for w in (v, v.upper()):
                        if a in w.lower():
                            k = w.lower().index(a)
                            seen.add(w[:k] + b + w[k + len(a):])
            if ename == "Visibility":
                for a in list(DOC_ALIASES) + ["v0-100", "V0-40", "v40-60 ", "none ", "not_available"]:
                    seen.add(a)
            seen.update({"", "zzz", "None", "unknown"})
            alphabet = string.ascii_letters + string.digits + "_- ."
            for _ in range(n_rand // len(PARSERS) + 1):
                seen.add("".join(rng.choice(alphabet) for _ in range(rng.randint(1, 12))))
            for s in sorted(seen):
                out.append({"parser": pname, "input": s})
        # further call sites (oracle only): every documented value, its case variants, near misses
        for site, ename in ORACLE_ONLY.items():
            seen = {"", "zzz", "detection ", "Detection", "detect", "detection2D"}
            for v in DOC_TABLES[ename].values():
                seen.update({v, v.upper(), v[:-1]})
            for s in sorted(seen):
                out.append({"parser": site, "input": s})
        return out

    def run_impl(self, case):
        enums, fns = _impl()
        if case["parser"] == MEMBERS:
            E = enums[case["enum"]]
            primary = next(p for p, v in PARSERS.items() if v[0] == case["enum"])
            back = {}
            for m in E:       # recorded for every enum (judged by the `printed` cases for the enums that document __str__)
                try:
                    back[m.name] = fns[primary](str(m)) is m
                except (ValueError, AssertionError, KeyError):
                    back[m.name] = False
            return {"kind": "table", "table": {m.name: m.value for m in E}, "printed": {m.name: str(m) for m in E}, "printed_parses_back": back}
        if case["parser"] in ORACLE_ONLY:
            return {"kind": "site", **_oracle_only_site(case["parser"], case["input"])}
        E = enums[PARSERS[case["parser"]][0]]
        extra = {}
        if "printed" in case:
            if case["printed"] not in E.__members__:
                return {"kind": "missing-member", "printed": None}
            case = dict(case, input=str(E[case["printed"]]))
            extra = {"printed": case["input"]}
        try:
            r = fns[case["parser"]](case["input"])
        except (ValueError, AssertionError, KeyError) as e:
            out = {"kind": "raises", "type": type(e).__name__, **extra}
            self._again(case, fns, E, out)
            return out
        out = classify(E, r)
        out.update(extra)
        self._again(case, fns, E, out)
        if case["parser"] == "Shape(shape_type)" and out["kind"] == "member":
            # the documented default: no footprint (oracle only; key not read by the model comparison)
            from perception_eval.common.shape import Shape

            def mk(t):
                try:
                    sh = Shape(t, (1.0, 2.0, 3.0))
                    return {"type": sh.type.name, "size": list(sh.size), "corners": sorted([round(float(x), 12), round(float(y), 12)] for x, y, *_ in list(sh.footprint.exterior.coords)[:4])}
                except (ValueError, AssertionError) as e:
                    return {"raises": type(e).__name__}
            out["default_footprint"] = {"str": mk(case["input"]), "enum": mk(E[out["key"]])}
        if case["parser"] == "Shape(shape_type)" and out["kind"] == "member":
            # both spellings must behave identically
            from perception_eval.common.shape import Shape
            a = Shape(case["input"], (1.0, 2.0, 3.0), footprint=_fp())
            b = Shape(E[out["key"]], (1.0, 2.0, 3.0), footprint=_fp())
            out["same_as_enum_spelling"] = bool(a.type is b.type and a.footprint.equals(b.footprint) and a.size == b.size)
        if case["parser"] == "TransformKey(src)" and out["kind"] == "member":
            from perception_eval.common.transform import TransformKey
            from perception_eval.common.schema import FrameID
            b = TransformKey(E[out["key"]], FrameID.MAP)
            same = True
            # every mix of spellings of the two arguments, in both positions, must give the same key
            for mk in (lambda: TransformKey(case["input"], "map"), lambda: TransformKey(case["input"], FrameID.MAP),
                       lambda: TransformKey(E[out["key"]], "map")):
                try:
                    a = mk()
                    same = same and bool(a == b and hash(a) == hash(b) and a.src is b.src and a.dst is b.dst)
                except Exception:
                    same = False
            b2 = TransformKey(FrameID.MAP, E[out["key"]])
            for mk in (lambda: TransformKey("map", case["input"]), lambda: TransformKey(FrameID.MAP, case["input"]),
                       lambda: TransformKey("map", E[out["key"]])):
                try:
                    a = mk()
                    same = same and bool(a == b2 and hash(a) == hash(b2) and a.src is b2.src and a.dst is b2.dst)
                except Exception:
                    same = False
            # ... and a registry (TransformDict) must answer a key spelled by strings exactly as the one spelled by members, through every
            # read / write entry point that takes a key: get, [], transform, []=, del
            try:
                from perception_eval.common.transform import HomogeneousMatrix, TransformDict
                m_fwd = HomogeneousMatrix((1.0, 2.0, 3.0), (1.0, 0.0, 0.0, 0.0), src=E[out["key"]], dst=FrameID.MAP)
                td = TransformDict([m_fwd])
                ref = td.get(TransformKey(E[out["key"]], FrameID.MAP))
                same = same and ref is m_fwd
                for key in ((case["input"], "map"), (case["input"], FrameID.MAP), (E[out["key"]], "map"), [case["input"], "map"],
                            TransformKey(case["input"], "map")):
                    same = same and td.get(key) is m_fwd and td[key] is m_fwd
                    if E[out["key"]] is not FrameID.MAP:
                        same = same and [float(v) for v in td.transform(key, (0.0, 0.0, 0.0))] == [1.0, 2.0, 3.0]
                td2 = TransformDict()
                td2[(case["input"], "map")] = m_fwd
                same = same and td2.get((E[out["key"]], FrameID.MAP)) is m_fwd and len(td2) == 1
                del td2[(case["input"], FrameID.MAP)]
                same = same and len(td2) == 0
            except Exception:
                same = False
            # frames whose value is a prefix / substring of this one's or vice versa (cam_traffic_light / cam_traffic_light_near, cam_front /
            # cam_front_left ...), in either position of the key, spelled by strings or members: never the same key, never the same entry
            try:
                me = E[out["key"]]
                for P in [m for m in FrameID if m is not me and (m.value.lower() in me.value.lower() or me.value.lower() in m.value.lower())]:
                    for pv in (P, P.value, P.value.upper()):
                        a, b = TransformKey(case["input"], pv), TransformKey(pv, case["input"])
                        c1, c2 = TransformKey(case["input"], "map"), TransformKey(pv, "map")
                        d1, d2 = TransformKey("map", case["input"]), TransformKey(FrameID.MAP, pv)
                        ident = TransformKey(case["input"], me)
                        same = same and a == TransformKey(me, P) and b == TransformKey(P, me)
                        same = same and not (a == b) and not (b == a) and not (a == ident) and not (ident == a) and not (b == ident)
                        same = same and not (c1 == c2) and not (c2 == c1) and not (d1 == d2) and not (d2 == d1)
                        same = same and a.src is me and a.dst is P and b.src is P and b.dst is me
                        m1 = HomogeneousMatrix((1.0, 2.0, 3.0), (1.0, 0.0, 0.0, 0.0), src=me, dst=P)
                        m2 = HomogeneousMatrix((4.0, 5.0, 6.0), (1.0, 0.0, 0.0, 0.0), src=P, dst=me)
                        td = TransformDict([m1, m2])
                        same = same and td.get((case["input"], pv)) is m1 and td[(pv, case["input"])] is m2 and len(td) == 2
                        same = same and [float(v) for v in td.transform((case["input"], pv), (0.0, 0.0, 0.0))] == [1.0, 2.0, 3.0]
                        same = same and [float(v) for v in td.transform((pv, case["input"]), (0.0, 0.0, 0.0))] == [4.0, 5.0, 6.0]
                        probe = (7.0, 8.0, 9.0)
                        same = same and td.transform((case["input"], me), probe) is probe
                        td3 = TransformDict([HomogeneousMatrix((1.0, 2.0, 3.0), (1.0, 0.0, 0.0, 0.0), src=me, dst=FrameID.MAP)])
                        same = same and td3.get((pv, "map")) is None and td3.get(("map", pv)) is None
                        out["prefix_partners"] = out.get("prefix_partners", 0) + 1
            except Exception:
                same = False
            out["same_as_enum_spelling"] = same
        return out

    @staticmethod
    def _again(case, fns, E, out):
        """the same string parsed a SECOND time after every documented spelling of the enum (and the other letter cases of the string itself)
        went through the same parser: the answer is a function of the string, not of what was parsed before (oracle only)"""
        f = fns[case["parser"]]
        s = case["input"]
        ename = PARSERS[case["parser"]][0]
        for w in list(DOC_TABLES[ename].values()) + list(DOC_TABLES[ename]) + [s.lower(), s.upper(), s.swapcase(), s.strip()]:
            try:
                f(w)
            except (ValueError, AssertionError, KeyError):
                pass
        try:
            r2 = classify(E, f(s))
        except (ValueError, AssertionError, KeyError) as e:
            r2 = {"kind": "raises", "type": type(e).__name__}
        first = {k: out.get(k) for k in ("kind", "key", "value", "type") if k in out}
        if r2 != first:
            out["second_call"] = r2

    def _model_result(self, obs):
        k = obs["kind"]
        if k == "member":
            return f'(Member {slit(obs["key"])})'
        if k == "str":
            return f'(KeyStr {slit(obs["value"])})'
        if k == "none":
            return "RetNone"
        if k == "raises":
            return "Raises"
        return "(KeyStr \"<unrepresentable>\")"

    def coq_term(self, case, obs):
        if case["parser"] == MEMBERS or case["parser"] in ORACLE_ONLY:
            return "true"           # judged by the oracle only
        if "printed" in case and obs.get("printed") is None:
            return "false"          # the documented member does not exist
        ename, pname, _, _ = PARSERS[case["parser"]]
        s = slit(obs["printed"] if "printed" in case else case["input"])
        if case["parser"] == "Shape(shape_type)":
            t = f"enum_or_str {ename}_enum {pname} Shape_init_str_branch (inl {s})"
        elif case["parser"] == "TransformKey(src)":
            t = f"enum_or_str {ename}_enum {pname} TransformKey_init_str_branch (inl {s})"
        else:
            t = f"run_parser {ename}_enum {pname} {s}"
        ok = obs.get("same_as_enum_spelling", True)
        return f"(result_eqb ({t}) {self._model_result(obs)} && {'true' if ok else 'false'})"

    def coq_debug(self, case, obs):
        if case["parser"] not in PARSERS:
            return "true"
        ename, pname, _, _ = PARSERS[case["parser"]]
        return f"run_parser {ename}_enum {pname} {slit(obs.get('printed') or '' if 'printed' in case else case['input'])}"

    def expected(self, case):
        """from the DOCUMENTED tables (never from the running enums)"""
        ename, _, rule, miss = PARSERS[case["parser"]]
        if "printed" in case:
            return {"kind": "member", "key": case["printed"]}
        s = case["input"]
        if not s.isascii():
            return {"kind": "member", "key": DOC_ALIAS_DEFAULT} if miss == "alias" else {"kind": "raises"}
        hits = [k for k, v in DOC_TABLES[ename].items() if (v == s if rule == "exact" else v.lower() == s.lower())]
        if len(hits) > 1:
            return {"kind": "ambiguous"}
        if hits:
            return {"kind": "member", "key": hits[0]}
        if miss == "alias":
            return {"kind": "member", "key": DOC_ALIASES.get(s, DOC_ALIAS_DEFAULT)}
        return {"kind": "raises"}

    def _oracle_site(self, case, obs):
        site, s = case["parser"], case["input"]
        key = next((k for k, v in DOC_TABLES["EvaluationTask"].items() if v == s), None)
        member = {"kind": "member", "key": key}
        o = obs["str"]
        if site == "set_task_lists":
            if key is not None:
                if o != {"kind": "list", "items": [member]}:
                    return f"set_task_lists([{s!r}]) should be [{key}] but is {o}"
                det = {"kind": "member", "key": "DETECTION"}
                if obs["twice"] != {"kind": "list", "items": [member, det, member]}:
                    return f"set_task_lists([{s!r}, 'detection', {s!r}]) should be [{key}, DETECTION, {key}] but is {obs['twice']}"
            elif o.get("kind") == "list" and o["items"]:
                return f"set_task_lists([{s!r}]) turns a string that names no task into {o['items']}"
            return None      # (a string that names no task is dropped silently today: see the final report; not judged)
        if site == "set_task_dict":
            # every documented task name keys the dict by that very member (repaired by /repo 01bdf34: EvaluationTask had lost __hash__)
            if key is not None and o != {"kind": "dict", "items": [[member, {"foo": 1}]]}:
                return f"set_task_dict({{{s!r}: {{'foo': 1}}}}) should be {{{key}: {{'foo': 1}}}} but is {o}"
            if key is None and o.get("kind") == "dict" and o["items"]:
                return f"set_task_dict keys a string that names no task: {o['items']}"
            return None
        # FrameID.from_task: string and enum spelling behave identically; documented mapping; anything else is rejected
        if key is None:
            return None if o.get("kind") == "raises" else f"FrameID.from_task({s!r}) names no task and should be rejected but gives {o}"
        if o.get("kind") != obs.get("enum", {}).get("kind") or o.get("key") != obs.get("enum", {}).get("key"):
            return f"FrameID.from_task({s!r}) = {o} but FrameID.from_task(EvaluationTask.{key}) = {obs.get('enum')}"
        if key in FROM_TASK_DOC and o != {"kind": "member", "key": FROM_TASK_DOC[key]}:
            return f"FrameID.from_task({s!r}) should be {FROM_TASK_DOC[key]} but is {o}"
        if key.endswith("2D") and o.get("kind") != "raises":
            return f"FrameID.from_task({s!r}) is documented to raise for 2D tasks but gives {o}"
        return None

    def oracle(self, case, obs):
        if case["parser"] == MEMBERS:
            doc = DOC_TABLES[case["enum"]]
            bad = {k: (v, obs["table"].get(k)) for k, v in doc.items() if obs["table"].get(k) != v}
            if bad:
                return f"{case['enum']}: documented members (name: documented value, running value) {bad}"
            if case["enum"] in PRINTS_VALUE:
                pr = {k: obs["printed"].get(k) for k, v in doc.items() if obs["printed"].get(k) != v}
                if pr:
                    return f"{case['enum']}: the printed form of a member is not its value: {pr}"
            return None
        if case["parser"] in ORACLE_ONLY:
            return self._oracle_site(case, obs)
        if obs.get("kind") == "missing-member":
            return f"{case['parser']}: the documented member {case['printed']} does not exist"
        exp = self.expected(case)
        shown = obs.get("printed") if "printed" in case else case["input"]
        if "second_call" in obs:
            first = {k: obs.get(k) for k in ("kind", "key", "value", "type") if k in obs}
            return (f"{case['parser']}({shown!r}) gives {first} on the first call and {obs['second_call']} after the documented spellings and the "
                    f"other letter cases of the string were parsed: the answer depends on earlier calls")
        case = dict(case, input=shown)
        df = obs.get("default_footprint")
        if df is not None and exp["kind"] == "member":
            if df["str"] != df["enum"]:
                return f"Shape({shown!r}, size) without a footprint gives {df['str']} but Shape(ShapeType.{exp['key']}, size) gives {df['enum']}"
            if exp["key"] == "BOUNDING_BOX" and df["str"] != {"type": "BOUNDING_BOX", "size": [1.0, 2.0, 3.0],
                                                               "corners": [[-1.0, -0.5], [-1.0, 0.5], [1.0, -0.5], [1.0, 0.5]]}:
                return f"Shape({shown!r}, (1, 2, 3)) without a footprint: {df['str']} is not the length x width rectangle of the size"
            if exp["key"] == "POLYGON" and "raises" not in df["str"]:
                return f"Shape({shown!r}, size) without a footprint is documented to need one but gives {df['str']}"
        if exp["kind"] == "ambiguous":
            return f"two members of the enum share the spelling {case['input']!r}"
        if exp["kind"] == "member":
            if obs.get("kind") != "member" or obs.get("key") != exp["key"]:
                return f"{case['parser']}({case['input']!r}) should be the member {exp['key']} but is {obs}"
            if obs.get("same_as_enum_spelling") is False:
                return f"{case['parser']}: string and enum spellings of {exp['key']} do not behave identically"
            return None
        if obs.get("kind") != "raises":
            return f"{case['parser']}({case['input']!r}) is not a member spelling and should be rejected but gives {obs}"
        return None

    def nontrivial(self, case, obs):
        if case["parser"] not in PARSERS:
            return case["parser"] == MEMBERS or case["input"] in DOC_TABLES["EvaluationTask"].values()
        return self.expected(case)["kind"] == "member" or case["input"].lower() != case["input"]

    def distribution(self, cases, obs):
        d = {}
        for o in obs:
            d[o.get("kind")] = d.get(o.get("kind"), 0) + 1
        per = {}
        for c in cases:
            per[c["parser"]] = per.get(c["parser"], 0) + 1
        extra = {"printed_form_cases": sum(1 for c in cases if "printed" in c), "non_ascii_inputs": sum(1 for c in cases if not c.get("input", "").isascii()),
                 "default_footprint_checks": sum(1 for o in obs if isinstance(o, dict) and "default_footprint" in o),
                 "oracle_only_site_cases": sum(1 for c in cases if c["parser"] in ORACLE_ONLY),
                 "strings_parsed_a_second_time_after_the_documented_spellings": sum(1 for c in cases if c["parser"] in PARSERS),
                 "of_them_answered_differently": sum(1 for o in obs if isinstance(o, dict) and "second_call" in o),
                 "TransformKey_checks_against_frames_whose_value_contains_or_is_contained_in_the_key_frame": sum(
                     o.get("prefix_partners", 0) for o in obs if isinstance(o, dict)),
                 "observation_members_whose_printed_form_does_not_parse_back": {
                     c["enum"]: sorted(k for k, ok in o["printed_parses_back"].items() if not ok)
                     for c, o in zip(cases, obs) if c["parser"] == MEMBERS and isinstance(o, dict) and "printed_parses_back" in o},
                 "observation_set_task_dict_on_documented_task_names": {
                     k: sum(1 for c, o in zip(cases, obs) if c["parser"] == "set_task_dict" and isinstance(o, dict)
                            and c["input"] in DOC_TABLES["EvaluationTask"].values()
                            and (o["str"].get("type", "") + ": " + o["str"].get("msg", "") if o["str"].get("kind") == "raises" else o["str"].get("kind")) == k)
                     for k in {(o["str"].get("type", "") + ": " + o["str"].get("msg", "") if o["str"].get("kind") == "raises" else o["str"].get("kind"))
                               for c, o in zip(cases, obs) if c["parser"] == "set_task_dict" and isinstance(o, dict)
                               and c["input"] in DOC_TABLES["EvaluationTask"].values()}},
                 "observation_non_member_strings_dropped_silently_by_set_task_lists/dict": sum(
                     1 for c, o in zip(cases, obs) if c["parser"] in ("set_task_lists", "set_task_dict") and isinstance(o, dict)
                     and c["input"] not in DOC_TABLES["EvaluationTask"].values() and o.get("str", {}).get("kind") in ("list", "dict"))}
        return {"result_kinds": d, "per_parser": per, **extra}


class C20(Prop):
    id = "C20"
    props_file = "Props/C20.v"
    gen_files = ["Enums.v"]
    rule = ("every member value and key of every enum in 6 case variants + near misses (trailing blank, dropped char, "
            "dash/underscore) + documented aliases + random ASCII strings + 12 non-ASCII strings (oracle: rejected / fallback), for each of the 9 "
            "string-accepting call sites; members and values are read from the DOCUMENTED tables written down in the harness (not from the "
            "running enums) and one case per enum compares the running member table and printed forms with them; per member of the five enums "
            "that document __str__ the printed form str(member), computed on the implementation, must parse back to the member; Shape(spelling, "
            "size) without a footprint against the enum spelling (rectangle for bounding_box, rejection for polygon); oracle-only call sites "
            "set_task_lists / set_task_dict (documented values give the member, also repeated) and FrameID.from_task (string = enum spelling, "
            "documented mapping, 2D tasks and non-members rejected); "
            "every string is parsed a SECOND time after all documented spellings of the enum and the other letter cases of the string went "
            "through the same parser (oracle: same answer -- the result is a function of the string, not of earlier calls); TransformKey: for "
            "every frame whose value contains or is contained in the key frame's value (cam_traffic_light / cam_traffic_light_near ...) the keys "
            "(X, P), (P, X), (X, X), (X, map), (P, map), (map, X), (map, P) in string / member spelling are pairwise different and a registry holding "
            "X->P and P->X answers each through get / [] / transform with its own entry; "
            "non-trivial = input is a documented member spelling or contains upper-case letters")
    assumptions = [
        "Python str.lower()/upper() modelled on ASCII only (non-ASCII case folding outside the model)",
        "translator/py_to_coq.py recognises the parser bodies (fail-closed) -- validated by this run's correspondence",
    ]
    design_ref = "DESIGN.md section 4, C20"
    technique = "Rocq proof over parser shapes regenerated from the source by a Python-ast translator; in-Coq correspondence on all members x spellings"
    level_text = ("Theorems (Props/C20.v, closed under the global context) state for each of the 7 parsers that every documented spelling of "
                  "every member's value yields that member and every other string the documented rejection/fallback, for ALL strings; they are "
                  "proved about an interpreter of parser shapes whose tables and shapes are regenerated from /repo's source on every run, and "
                  "the interpreter is validated against the real parsers on every member x case variants x near misses x random strings. Run-time "
                  "oracle only: the running member tables equal the documented ones, printed forms parse back, default footprint of both spellings, "
                  "set_task_lists / set_task_dict / FrameID.from_task.")
    level_note = ("Trusted: Coq kernel+vm_compute; translator/py_to_coq.py (fail-closed ast matcher); ASCII-only model of str.lower/upper; "
                  "exception class not modelled. A rewrite of a parser into an unrecognised shape breaks the tie (reported as a violation "
                  "with no-failing-input-found unless the exhaustive member sweep finds a failing spelling).")
    not_proved = ["exception classes (ValueError vs AssertionError) are observed, not modelled: both count as rejection"]

    def correspondences(self):
        return [ParserCorr()]


READY = True
PROP = C20()
