"""C20 -- configuration strings parse to the enum member they name."""
import random
import string

from harness.lib.core import Corr, Prop, slit

# documented acceptance rule per parser (independent of the Coq model): exact | anycase
PARSERS = {
    "EvaluationTask.from_value": ("EvaluationTask", "EvaluationTask_from_value", "exact", "raise"),
    "set_task": ("EvaluationTask", "set_task", "exact", "raise"),
    "FrameID.from_value": ("FrameID", "FrameID_from_value", "anycase", "raise"),
    "Visibility.from_value": ("Visibility", "Visibility_from_value", "exact", "alias"),
    "SensorModality.from_value": ("SensorModality", "SensorModality_from_value", "exact", "raise"),
    "ShapeType.from_value": ("ShapeType", "ShapeType_from_value", "exact", "raise"),
    "MatchingLabelPolicy.from_str": ("MatchingLabelPolicy", "MatchingLabelPolicy_from_str", "anycase", "raise"),
    "Shape(shape_type)": ("ShapeType", "ShapeType_from_value", "exact", "raise"),
    "TransformKey(src)": ("FrameID", "FrameID_from_value", "anycase", "raise"),
}
DOC_ALIASES = {"v0-40": "NONE", "v40-60": "PARTIAL", "v60-80": "MOST", "v80-100": "FULL"}
DOC_ALIAS_DEFAULT = "UNAVAILABLE"


def _impl():
    from perception_eval.common.evaluation_task import EvaluationTask, set_task
    from perception_eval.common.schema import FrameID, SensorModality, Visibility
    from perception_eval.common.shape import Shape, ShapeType
    from perception_eval.common.transform import TransformKey
    from perception_eval.evaluation.matching.object_matching import MatchingLabelPolicy

    enums = {"EvaluationTask": EvaluationTask, "FrameID": FrameID, "Visibility": Visibility,
             "SensorModality": SensorModality, "ShapeType": ShapeType, "MatchingLabelPolicy": MatchingLabelPolicy}
    fns = {
        "EvaluationTask.from_value": EvaluationTask.from_value,
        "set_task": set_task,
        "FrameID.from_value": FrameID.from_value,
        "Visibility.from_value": Visibility.from_value,
        "SensorModality.from_value": SensorModality.from_value,
        "ShapeType.from_value": ShapeType.from_value,
        "MatchingLabelPolicy.from_str": MatchingLabelPolicy.from_str,
        "Shape(shape_type)": lambda s: Shape(s, (1.0, 2.0, 3.0), footprint=_fp()).type,
        "TransformKey(src)": lambda s: TransformKey(s, "map").src,
    }
    return enums, fns


def _fp():
    from shapely.geometry import Polygon

    return Polygon([(1.0, 0.5, 0.0), (-1.0, 0.5, 0.0), (-1.0, -0.5, 0.0), (1.0, -0.5, 0.0)])


def classify(enum_cls, r):
    import enum as _enum

    if r is None:
        return {"kind": "none"}
    if isinstance(r, _enum.Enum):
        if type(r) is not enum_cls:
            return {"kind": "foreign-member", "repr": repr(r)}
        return {"kind": "member", "key": r.name}
    if isinstance(r, str):
        return {"kind": "str", "value": r}
    return {"kind": "other", "repr": repr(r)}


def case_variants(v, rng):
    out = {v, v.upper(), v.lower(), v.title(), v.swapcase()}
    out.add("".join(c.upper() if rng.random() < 0.5 else c.lower() for c in v))
    return sorted(out)


class ParserCorr(Corr):
    name = "parsers"
    header = ("From Coq Require Import String List Bool.\nFrom PE Require Import Base.CaseUtil Base.StrUtil Model.EnumParse Gen.Enums.\n"
              "Import ListNotations.\nOpen Scope string_scope.\nOpen Scope bool_scope.\n")
    requires = ["Gen/Enums.vo", "Base/CaseUtil.vo"]

    def cases(self, tier, rng):
        enums, _ = _impl()
        n_rand = 150 if tier == "quick" else 1500
        out = []
        for pname, (ename, _, _, _) in PARSERS.items():
            E = enums[ename]
            vals = [m.value for m in E]
            keys = [m.name for m in E]
            seen = set()
            for v in vals + keys:
                for s in case_variants(v, rng):
                    seen.add(s)
                # near misses
                seen.update({v + " ", " " + v, v[:-1], v + "x", v.replace("_", "-"), v.replace("_", "")})
            if ename == "Visibility":
                for a in list(DOC_ALIASES) + ["v0-100", "V0-40", "v40-60 ", "none ", "not_available"]:
                    seen.add(a)
            seen.update({"", "zzz", "None", "unknown"})
            alphabet = string.ascii_letters + string.digits + "_- ."
            for _ in range(n_rand // len(PARSERS) + 1):
                seen.add("".join(rng.choice(alphabet) for _ in range(rng.randint(1, 12))))
            for s in sorted(seen):
                out.append({"parser": pname, "input": s})
        return out

    def run_impl(self, case):
        enums, fns = _impl()
        E = enums[PARSERS[case["parser"]][0]]
        try:
            r = fns[case["parser"]](case["input"])
        except (ValueError, AssertionError, KeyError) as e:
            return {"kind": "raises", "type": type(e).__name__}
        out = classify(E, r)
        if case["parser"] == "Shape(shape_type)" and out["kind"] == "member":
            # both spellings must behave identically
            from perception_eval.common.shape import Shape
            a = Shape(case["input"], (1.0, 2.0, 3.0), footprint=_fp())
            b = Shape(E[out["key"]], (1.0, 2.0, 3.0), footprint=_fp())
            out["same_as_enum_spelling"] = bool(a.type is b.type and a.footprint.equals(b.footprint) and a.size == b.size)
        if case["parser"] == "TransformKey(src)" and out["kind"] == "member":
            from perception_eval.common.transform import TransformKey
            from perception_eval.common.schema import FrameID
            b = TransformKey(E[out["key"]], FrameID.MAP)
            same = True
            # every mix of spellings of the two arguments, in both positions, must give the same key
            for mk in (lambda: TransformKey(case["input"], "map"), lambda: TransformKey(case["input"], FrameID.MAP),
                       lambda: TransformKey(E[out["key"]], "map")):
                try:
                    a = mk()
                    same = same and bool(a == b and hash(a) == hash(b) and a.src is b.src and a.dst is b.dst)
                except Exception:
                    same = False
            b2 = TransformKey(FrameID.MAP, E[out["key"]])
            for mk in (lambda: TransformKey("map", case["input"]), lambda: TransformKey(FrameID.MAP, case["input"]),
                       lambda: TransformKey("map", E[out["key"]])):
                try:
                    a = mk()
                    same = same and bool(a == b2 and hash(a) == hash(b2) and a.src is b2.src and a.dst is b2.dst)
                except Exception:
                    same = False
            out["same_as_enum_spelling"] = same
        return out

    def _model_result(self, obs):
        k = obs["kind"]
        if k == "member":
            return f'(Member {slit(obs["key"])})'
        if k == "str":
            return f'(KeyStr {slit(obs["value"])})'
        if k == "none":
            return "RetNone"
        if k == "raises":
            return "Raises"
        return "(KeyStr \"<unrepresentable>\")"

    def coq_term(self, case, obs):
        ename, pname, _, _ = PARSERS[case["parser"]]
        s = slit(case["input"])
        if case["parser"] == "Shape(shape_type)":
            t = f"enum_or_str {ename}_enum {pname} Shape_init_str_branch (inl {s})"
        elif case["parser"] == "TransformKey(src)":
            t = f"enum_or_str {ename}_enum {pname} TransformKey_init_str_branch (inl {s})"
        else:
            t = f"run_parser {ename}_enum {pname} {s}"
        ok = obs.get("same_as_enum_spelling", True)
        return f"(result_eqb ({t}) {self._model_result(obs)} && {'true' if ok else 'false'})"

    def coq_debug(self, case, obs):
        ename, pname, _, _ = PARSERS[case["parser"]]
        return f"run_parser {ename}_enum {pname} {slit(case['input'])}"

    def expected(self, case):
        enums, _ = _impl()
        ename, _, rule, miss = PARSERS[case["parser"]]
        E = enums[ename]
        s = case["input"]
        hits = [m for m in E if (m.value == s if rule == "exact" else m.value.lower() == s.lower())]
        if len(hits) > 1:
            return {"kind": "ambiguous"}
        if hits:
            return {"kind": "member", "key": hits[0].name}
        if miss == "alias":
            return {"kind": "member", "key": DOC_ALIASES.get(s, DOC_ALIAS_DEFAULT)}
        return {"kind": "raises"}

    def oracle(self, case, obs):
        exp = self.expected(case)
        if exp["kind"] == "ambiguous":
            return f"two members of the enum share the spelling {case['input']!r}"
        if exp["kind"] == "member":
            if obs.get("kind") != "member" or obs.get("key") != exp["key"]:
                return f"{case['parser']}({case['input']!r}) should be the member {exp['key']} but is {obs}"
            if obs.get("same_as_enum_spelling") is False:
                return f"{case['parser']}: string and enum spellings of {exp['key']} do not behave identically"
            return None
        if obs.get("kind") != "raises":
            return f"{case['parser']}({case['input']!r}) is not a member spelling and should be rejected but gives {obs}"
        return None

    def nontrivial(self, case, obs):
        return self.expected(case)["kind"] == "member" or case["input"].lower() != case["input"]

    def distribution(self, cases, obs):
        d = {}
        for o in obs:
            d[o.get("kind")] = d.get(o.get("kind"), 0) + 1
        per = {}
        for c in cases:
            per[c["parser"]] = per.get(c["parser"], 0) + 1
        return {"result_kinds": d, "per_parser": per}


class C20(Prop):
    id = "C20"
    props_file = "Props/C20.v"
    gen_files = ["Enums.v"]
    rule = ("every member value and key of every enum in 6 case variants + near misses (trailing blank, dropped char, "
            "dash/underscore) + documented aliases + random ASCII strings, for each of the 9 string-accepting call sites; "
            "non-trivial = input is a documented member spelling or contains upper-case letters")
    assumptions = [
        "Python str.lower()/upper() modelled on ASCII only (non-ASCII case folding outside the model)",
        "translator/py_to_coq.py recognises the parser bodies (fail-closed) -- validated by this run's correspondence",
    ]
    design_ref = "DESIGN.md section 4, C20"
    technique = "Rocq proof over parser shapes regenerated from the source by a Python-ast translator; in-Coq correspondence on all members x spellings"
    level_text = ("Theorems (Props/C20.v, closed under the global context) state for each of the 7 parsers that every documented spelling of "
                  "every member's value yields that member and every other string the documented rejection/fallback, for ALL strings; they are "
                  "proved about an interpreter of parser shapes whose tables and shapes are regenerated from /repo's source on every run, and "
                  "the interpreter is validated against the real parsers on every member x case variants x near misses x random strings.")
    level_note = ("Trusted: Coq kernel+vm_compute; translator/py_to_coq.py (fail-closed ast matcher); ASCII-only model of str.lower/upper; "
                  "exception class not modelled. A rewrite of a parser into an unrecognised shape breaks the tie (reported as a violation "
                  "with no-failing-input-found unless the exhaustive member sweep finds a failing spelling).")
    not_proved = ["exception classes (ValueError vs AssertionError) are observed, not modelled: both count as rejection"]

    def correspondences(self):
        return [ParserCorr()]


READY = True
PROP = C20()
