"""Shared machinery of ./check: build, Print Assumptions, in-Coq correspondence evaluation,
verdict, replay and evidence.  Everything scratch lives under /verif/build."""
import fcntl
import hashlib
import json
import os
import random
import re
import subprocess
import sys
import time
import traceback
from concurrent.futures import ThreadPoolExecutor
from fractions import Fraction

ROOT = os.environ.get("VERIF_ROOT", os.path.dirname(os.path.dirname(os.path.dirname(os.path.abspath(__file__)))))
REPO = os.environ.get("VERIF_REPO", "/repo")
COQ = os.path.join(ROOT, "coq")
THEORIES = os.path.join(COQ, "theories")
BUILD = os.path.join(ROOT, "build")
JOBS = int(os.environ.get("VERIF_JOBS", "16"))

TRUSTED_BASE_COMMON = [
    "Coq 8.16.1 kernel incl. the vm_compute machine (no native_compute, no -type-in-type, no guard/positivity/universe switches)",
    "no Axiom/Parameter/Admitted in /verif/coq (grep-checked on every run); Print Assumptions output recorded per theorem",
    "coqchk -o (thorough tier) lists the axioms of every LOADED library: files using Psatz/Lra load Coq.Reals and with it "
    "Coq.Logic.FunctionalExtensionality.functional_extensionality_dep, Coq.Reals.ClassicalDedekindReals.sig_not_dec and sig_forall_dec; "
    "no property theorem depends on them (Print Assumptions: closed under the global context) EXCEPT the theorems of Props/C17Slerp.v, which are "
    "statements about real numbers and depend on exactly those three plus Classical_Prop.classic (declared per file in allowed_axioms and "
    "checked against Print Assumptions on every run); any axiom outside Coq.* fails the check",
    "hand-written models in coq/theories/Model tied to /repo by the in-Coq correspondence of this run (harness/props + harness/lib/core.py)",
    "exact float->Q encoding (fractions.Fraction) of implementation inputs/outputs; CPython, numpy, shapely, pyquaternion as executed",
]


# ------------------------------------------------------------------------------------------------
# Coq literals
# ------------------------------------------------------------------------------------------------
def qlit(x):
    """Exact rational literal of an int/float/Fraction (binary64 values are rationals)."""
    if isinstance(x, bool):
        x = int(x)
    fr = Fraction(x)
    n, dd = fr.numerator, fr.denominator
    return f"({n} # {dd})" if n >= 0 else f"(({n}) # {dd})"


def zlit(n):
    n = int(n)
    return f"{n}" if n >= 0 else f"({n})"


def blit(b):
    return "true" if b else "false"


def slit(s):
    return '"' + s.replace('"', '""') + '"'


def llit(items):
    return "[" + "; ".join(items) + "]"


def olit(x, f):
    return "None" if x is None else f"(Some {f(x)})"


# ------------------------------------------------------------------------------------------------
# build
# ------------------------------------------------------------------------------------------------
class BuildLock:
    def __enter__(self):
        os.makedirs(BUILD, exist_ok=True)
        self.f = open(os.path.join(BUILD, ".lock"), "w")
        fcntl.flock(self.f, fcntl.LOCK_EX)
        return self

    def __exit__(self, *a):
        fcntl.flock(self.f, fcntl.LOCK_UN)
        self.f.close()


def sh(cmd, timeout=1800, cwd=None):
    try:
        p = subprocess.run(cmd, shell=isinstance(cmd, str), cwd=cwd, capture_output=True, text=True, timeout=timeout)
        return p.returncode, p.stdout + p.stderr
    except subprocess.TimeoutExpired as e:
        return 124, f"TIMEOUT after {timeout}s: {cmd}\n" + ((e.stdout or b"").decode(errors="replace") if isinstance(e.stdout, bytes) else (e.stdout or ""))


def regenerate_gen():
    """Regenerate Gen/*.v from /repo's current working tree.  Returns {file: error|None}."""
    sys.path.insert(0, os.path.join(ROOT, "translator"))
    import py_to_coq

    st = py_to_coq.regenerate(REPO, os.path.join(THEORIES, "Gen"))
    extra = sorted(f[:-3] for f in os.listdir(os.path.join(ROOT, "translator")) if re.fullmatch(r"(loops|decisions)_[a-z0-9_]+\.py", f))
    for modname, fname in [("decisions", "Decisions.v"), ("loops", "Loops.v")] + [(m, m + ".v") for m in extra]:
        try:
            mod = __import__(modname)
            st.update({k: (None if v is None else "redundant-tie: " + str(v)) for k, v in mod.regenerate(REPO, os.path.join(THEORIES, "Gen")).items()})
        except Exception as e:  # noqa: BLE001 -- the translated decision / loop functions are a REDUNDANT tie (see gen_tie below)
            st[fname] = f"redundant-tie: translator failed: {type(e).__name__}: {e}"
    return st


def gen_tie(pid, theorems):
    """Redundant tie (DESIGN.md section 2): the decision functions translated from the source on this run (Gen/Decisions.v) are proved EQUAL,
    for all inputs, to the hand-model definitions (Props/GenTie.v).  The theorems a property names are compiled on their own (one file per
    property under build/gentie) so that one broken equation does not hide the others.  Returns {theorem: "checked" | "lost: why"}."""
    files = {}
    for fn in sorted(f for f in os.listdir(os.path.join(THEORIES, "Props")) if re.fullmatch(r"GenTie[A-Za-z0-9_]*\.v", f)):
        src_f = open(os.path.join(THEORIES, "Props", fn)).read()
        m0 = re.search(r"^\(\* ---- ", src_f, flags=re.M)
        head_f = src_f[:m0.start()] if m0 else src_f[:src_f.index("Theorem")]
        # what the file's header requires of the generated / lemma layer: `Gen.X` -> Gen/X.vo, `Proofs.Y` -> Proofs/Y.vo
        deps = [f"{a}/{b}.vo" for a, b in re.findall(r"\b(Gen|Proofs|Props)\.([A-Za-z0-9_]+)", strip_coq_comments(head_f))]
        files[fn] = (src_f, head_f, list(dict.fromkeys(deps)))
    out = {}
    made = {}
    make(["Model/AP.vo", "Model/Matching.vo", "Model/Filter.vo", "Model/Clear.vo", "Model/PassFail.vo"])
    d = os.path.join(BUILD, "gentie")
    os.makedirs(d, exist_ok=True)
    # results are remembered per theorem under a digest of EVERY source file of the development (generated files included): the same
    # sources give the same answer, so properties that share an equation (and repeated runs on an unchanged tree) do not recompile it
    import hashlib
    hh = hashlib.sha256()
    for dp, _, fs in sorted(os.walk(THEORIES)):
        for f in sorted(fs):
            if f.endswith(".v"):
                hh.update(f.encode())
                hh.update(open(os.path.join(dp, f), "rb").read())
    digest = hh.hexdigest()
    cache_p = os.path.join(d, "cache.json")
    try:
        cache = json.load(open(cache_p))
        if cache.get("digest") != digest:
            cache = {"digest": digest, "results": {}}
    except Exception:  # noqa: BLE001
        cache = {"digest": digest, "results": {}}
    jobs_ = []
    for t in theorems:
        if cache["results"].get(t) == "checked":
            out[t] = "checked"
            continue
        fn = next((f for f, (sf, _, _) in files.items() if re.search(r"^Theorem " + re.escape(t) + r"\b", sf, flags=re.M)), "GenTie.v")
        src, head, deps = files[fn]
        if fn not in made:
            made[fn] = make(deps)
        ok, log = made[fn]
        if not ok:
            out[t] = f"lost: {' / '.join(x[:-1] for x in deps)} do not compile: " + log[-300:].replace("\n", " ")
            continue
        m = re.search(r"^Theorem " + re.escape(t) + r"\b.*?^Print Assumptions " + re.escape(t) + r"\.", src, flags=re.M | re.S)
        if not m:
            out[t] = "lost: theorem not found in Props/GenTie*.v"
            continue
        path = os.path.join(d, f"{pid}_{t}.v")
        with open(path, "w") as f:
            f.write(head + "\n" + m.group(0) + "\n")
        jobs_.append((t, path))

    def _one(tp):
        t, path = tp
        rc, o = sh(["coqc", "-Q", THEORIES, "PE", "-w", "-notation-overridden,-deprecated-hint-without-locality", path], timeout=900, cwd=d)
        if rc == 0 and "Closed under the global context" in o and "Axioms:" not in o:
            return t, "checked"
        mm = re.search(r"(Error:.*)", o, flags=re.S)
        return t, "lost: " + (mm.group(1) if mm else o[-400:]).replace("\n", " ")[:400]

    if jobs_:
        from concurrent.futures import ThreadPoolExecutor

        with ThreadPoolExecutor(max(1, min(JOBS, 8))) as ex:
            for t, r in ex.map(_one, jobs_):
                out[t] = r
                cache["results"][t] = r
    try:
        json.dump(cache, open(cache_p, "w"))
    except Exception:  # noqa: BLE001
        pass
    return out


def ensure_makefile():
    files = []
    for d, _, fs in os.walk(THEORIES):
        for f in fs:
            if f.endswith(".v"):
                files.append(os.path.relpath(os.path.join(d, f), COQ))
    files.sort()
    txt = "-Q theories PE\n-arg -w -arg -notation-overridden,-deprecated-hint-without-locality,-deprecated-instance-without-locality\n" + "\n".join(files) + "\n"
    cp = os.path.join(COQ, "_CoqProject")
    old = open(cp).read() if os.path.exists(cp) else None
    if old != txt or not os.path.exists(os.path.join(COQ, "Makefile")):
        with open(cp, "w") as f:
            f.write(txt)
        rc, out = sh("coq_makefile -f _CoqProject -o Makefile", cwd=COQ)
        if rc != 0:
            raise RuntimeError("coq_makefile failed: " + out)


def make(targets, timeout=2400):
    """make the given .vo targets (paths relative to theories/).  Returns (ok, log)."""
    ensure_makefile()
    tg = " ".join("theories/" + t for t in targets)
    rc, out = sh(f"make -j{JOBS} {tg}", timeout=timeout, cwd=COQ)
    return rc == 0, out


def forbidden_constructs():
    """Admitted/Axiom/... anywhere in the development (a cheap syntactic scan on every run)."""
    pat = re.compile(r"\b(Admitted|admit|Axiom|Axioms|Parameter|Parameters|Conjecture|Hypothesis|Variable|Variables|Hypotheses|Admit Obligations|bypass_check|Unset Guard Checking|Unset Positivity Checking|Unset Universe Checking|native_compute)\b")
    bad = []
    for d, _, fs in os.walk(THEORIES):
        for f in fs:
            if not f.endswith(".v"):
                continue
            path = os.path.join(d, f)
            txt = open(path).read()
            txt = strip_coq_comments(txt)
            depth = 0
            for ln, line in enumerate(txt.split("\n"), 1):
                if re.match(r"\s*Section\b", line):
                    depth += 1
                if re.match(r"\s*End\b", line) and depth > 0:
                    depth -= 1
                for m in pat.finditer(line):
                    w = m.group(1)
                    if w in ("Variable", "Variables", "Hypothesis", "Hypotheses") and depth > 0:
                        continue  # Section variables are discharged, not axioms
                    bad.append(f"{os.path.relpath(path, ROOT)}:{ln}: {w}")
    return bad


def strip_coq_comments(txt):
    out = []
    depth = 0
    i = 0
    in_str = False
    while i < len(txt):
        if not in_str and txt.startswith("(*", i):
            depth += 1
            i += 2
            continue
        if not in_str and depth > 0 and txt.startswith("*)", i):
            depth -= 1
            i += 2
            continue
        c = txt[i]
        if depth == 0:
            if c == '"':
                in_str = not in_str
            out.append(c)
        elif c == "\n":
            out.append(c)
        i += 1
    return "".join(out)


def print_assumptions(props_rel):
    """Re-run coqc on a Props file and pair each `Print Assumptions X.` with what was printed."""
    path = os.path.join(THEORIES, props_rel)
    src = strip_coq_comments(open(path).read())
    names = re.findall(r"Print Assumptions\s+([A-Za-z0-9_']+)\s*\.", src)
    rc, out = sh(["coqc", "-Q", THEORIES, "PE", "-w", "-notation-overridden,-deprecated-hint-without-locality", path], timeout=1200, cwd=COQ)
    if rc != 0:
        return None, out
    blocks = []
    cur = None
    for line in out.split("\n"):
        if line.startswith("Closed under the global context"):
            blocks.append("Closed under the global context")
            cur = None
        elif line.startswith("Axioms:"):
            cur = ["Axioms:"]
            blocks.append(cur)
        elif cur is not None and line.strip():
            cur.append(line.rstrip())
    res = []
    for i, n in enumerate(names):
        b = blocks[i] if i < len(blocks) else "?? (no output)"
        res.append((n, b if isinstance(b, str) else "\n".join(b)))
    if len(blocks) != len(names):
        return None, f"Print Assumptions: {len(names)} requests but {len(blocks)} answers\n" + out
    return res, out


def theorem_names(props_rel):
    src = strip_coq_comments(open(os.path.join(THEORIES, props_rel)).read())
    return re.findall(r"^\s*(?:Theorem|Corollary)\s+([A-Za-z0-9_']+)", src, flags=re.M), re.findall(r"^\s*Example\s+([A-Za-z0-9_']+)", src, flags=re.M)


# ------------------------------------------------------------------------------------------------
# in-Coq evaluation of correspondence cases
# ------------------------------------------------------------------------------------------------
def coqc_file(path, timeout=900):
    return sh(f"ulimit -s unlimited 2>/dev/null; coqc -Q {THEORIES} PE -w -notation-overridden {path}", timeout=timeout, cwd=os.path.dirname(path))


def eval_cases(tag, header, terms, shard=250, timeout=900):
    """terms: list of Coq bool terms.  Returns (failing_indices, errors:list[str])."""
    cdir = os.path.join(BUILD, "cases", tag)
    if os.path.isdir(cdir):
        for f in os.listdir(cdir):
            os.remove(os.path.join(cdir, f))
    os.makedirs(cdir, exist_ok=True)
    shards = []
    for si, start in enumerate(range(0, len(terms), shard)):
        chunk = terms[start:start + shard]
        path = os.path.join(cdir, f"s{si}.v")
        with open(path, "w") as f:
            f.write(header + "\n")
            f.write("Definition cases : list bool := [\n" + ";\n".join(chunk) + "\n].\n")
            f.write("Eval vm_compute in (failing cases).\n")
        shards.append((start, path, len(chunk)))
    failing, errors = [], []

    def run(s):
        start, path, n = s
        rc, out = coqc_file(path, timeout)
        return start, path, n, rc, out

    with ThreadPoolExecutor(max_workers=JOBS) as ex:
        for start, path, n, rc, out in ex.map(run, shards):
            if rc != 0:
                errors.append(f"{os.path.basename(path)}: coqc exit {rc}: {out[-1500:]}")
                continue
            m = re.search(r"=\s*\[(.*?)\]\s*:\s*list nat", out, flags=re.S)
            if not m:
                errors.append(f"{os.path.basename(path)}: cannot parse coqc output: {out[-500:]}")
                continue
            body = m.group(1).strip()
            if body:
                for tok in body.split(";"):
                    failing.append(start + int(tok.strip().replace("%nat", "")))
    # keep only failing shards' sources for inspection; remove compiled junk
    for f in os.listdir(cdir):
        if not f.endswith(".v"):
            try:
                os.remove(os.path.join(cdir, f))
            except OSError:
                pass          # another run of the same check cleaned up at the same time
    return sorted(failing), errors


def eval_debug(tag, header, term, timeout=300):
    """Evaluate one arbitrary term with vm_compute and return coqc's printed text."""
    cdir = os.path.join(BUILD, "cases", tag)
    os.makedirs(cdir, exist_ok=True)
    path = os.path.join(cdir, "debug.v")
    with open(path, "w") as f:
        f.write(header + "\nEval vm_compute in (" + term + ").\n")
    rc, out = coqc_file(path, timeout)
    for ext in (".vo", ".vok", ".vos", ".glob"):
        p = path[:-2] + ext
        if os.path.exists(p):
            os.remove(p)
    return out.strip()[-4000:]


# ------------------------------------------------------------------------------------------------
# correspondence / property plumbing
# ------------------------------------------------------------------------------------------------
class Corr:
    """One correspondence: generated inputs, the implementation run on them, the Coq model run
    on the same inputs and compared in Coq, and the direct property oracle on the impl output."""

    name = "corr"
    header = ""          # Coq header for the cases files (Require Imports, Open Scope ...)
    requires = []        # .vo targets (relative to theories/) the header needs
    shard = 250

    def cases(self, tier, rng):
        raise NotImplementedError

    def run_impl(self, case):
        raise NotImplementedError

    def coq_term(self, case, obs):
        """bool-valued Coq term: the model reproduces `obs` on `case`."""
        raise NotImplementedError

    def coq_debug(self, case, obs):
        return None

    def oracle(self, case, obs):
        """Direct property predicate on the implementation's output; None = holds,
        str = what fails.  Independent of the Coq model."""
        return None

    def nontrivial(self, case, obs):
        return True

    def describe(self, case, obs):
        return {"case": case, "observed": obs}


class Prop:
    id = "C00"
    props_file = None
    level = "proof"
    assumptions = []
    trusted_base_extra = []
    not_proved = []

    def correspondences(self):
        return []

    def search(self, rng, budget_s):
        """Wider oracle-only search for a failing input after a tie broke.
        Returns (corr, case, obs, msg) or None."""
        t0 = time.time()
        for c in self.correspondences():
            for case in c.cases("thorough", rng):
                if time.time() - t0 > budget_s:
                    return None
                obs = safe_run(c, case)
                msg = c.oracle(case, obs)
                if msg:
                    return c, case, obs, msg
        return None

    def known_match(self, finding, corr_name, case, obs, msg):
        """Does a failing oracle instance fall under a listed known finding?"""
        return False

    def known_probe(self, finding):
        """Is the recorded finding still reproducible on the implementation? -> bool"""
        return False


def safe_run(corr, case):
    try:
        return corr.run_impl(case)
    except Exception as e:  # harness bug or unexpected impl exception: surfaced, never swallowed
        return {"__harness_exception__": f"{type(e).__name__}: {e}", "trace": traceback.format_exc()[-1500:]}


_PAR_STATE = {}


def _par_worker(i):
    c, cases = _PAR_STATE["c"], _PAR_STATE["cases"]
    return safe_run(c, cases[i])


def run_all(corr, cases):
    """Run the implementation on every case; forked worker processes when there are many cases.
    (Each case is independent: run_impl builds its objects from the JSON-able case.)"""
    n = len(cases)
    if n < getattr(corr, "parallel_min", 64) or os.environ.get("VERIF_PAR", "1") == "0" or getattr(corr, "sequential", False):
        return [safe_run(corr, k) for k in cases]
    import multiprocessing as mp

    _PAR_STATE["c"], _PAR_STATE["cases"] = corr, cases
    try:
        if cases:
            safe_run(corr, cases[0])  # import everything once in the parent so that children inherit it
        with mp.get_context("fork").Pool(min(JOBS, max(1, n // max(1, getattr(corr, "parallel_min", 64) // 4)))) as pool:
            return pool.map(_par_worker, range(n), chunksize=max(1, n // (JOBS * 8)))
    finally:
        _PAR_STATE.clear()


def canon(x):
    return json.dumps(x, sort_keys=True, default=str)


def load_known():
    out = []
    p = os.path.join(ROOT, "known_findings.json")
    if os.path.exists(p):
        out += json.load(open(p)).get("findings", [])
    return out


def write_replay(pid, payload):
    os.makedirs(os.path.join(BUILD, "replay"), exist_ok=True)
    h = hashlib.sha1(canon(payload).encode()).hexdigest()[:12]
    path = os.path.join(BUILD, "replay", f"{pid}_{h}.json")
    with open(path, "w") as f:
        json.dump(payload, f, indent=1, sort_keys=True, default=str)
    return path


def run_check(prop, tier, seed):
    t0 = time.time()
    pid = prop.id
    rng = random.Random(seed)
    ev = {
        "property_id": pid, "tier": tier, "seed": seed, "level": "proof",
        "coverage": {}, "assumptions": list(prop.assumptions), "wall_s": 0.0, "violations": 0,
    }
    cov = ev["coverage"]
    rdir = os.path.join(BUILD, "replay")
    if os.path.isdir(rdir):
        for f in os.listdir(rdir):
            if f.startswith(pid + "_"):
                os.remove(os.path.join(rdir, f))
    broken = []       # broken ties (proof obligations / correspondences / translator)
    violations = []   # (msg, replay payload)
    known_lines = []

    # 1. regenerate the translated part of the model from the current source, rebuild proofs
    with BuildLock():
        gen = regenerate_gen()
        for fn, err in gen.items():
            if err and not str(err).startswith(("inferred:", "redundant-tie:")) and fn in getattr(prop, "gen_files", []):
                broken.append({"kind": "translator", "file": fn, "error": err})
        cov["translator"] = {k: ("ok" if v is None else v) for k, v in gen.items() if k in getattr(prop, "gen_files", [])}
        bad = forbidden_constructs()
        if bad:
            broken.append({"kind": "forbidden-construct", "where": bad})
        pfiles = ([prop.props_file] if prop.props_file else []) + list(getattr(prop, "extra_props_files", []))
        targets = [f[:-2] + ".vo" for f in pfiles]
        model_targets = sorted({t for c in prop.correspondences() for t in c.requires})
        ok_models, log_m = make(model_targets) if model_targets else (True, "")
        ok_props, log_p = make(targets) if targets else (True, "")
        thms, examples = [], []
        for f in pfiles:
            t_, e_ = theorem_names(f)
            thms += t_
            examples += e_
        pa = None
        pa_file = {}
        if ok_props and pfiles:
            pa = []
            for f in pfiles:
                pa_f, pa_out = print_assumptions(f)
                if pa_f is None:
                    ok_props = False
                    pa = None
                    log_p += "\n" + pa_out
                    break
                pa += pa_f
                for n_, _ in pa_f:
                    pa_file[n_] = f
    if not ok_props:
        m = re.search(r'File "([^"]+)", line (\d+).*?\n(Error:.*?)(?:\n\n|\Z)', log_p, flags=re.S)
        broken.append({"kind": "proof", "file": m.group(1) if m else prop.props_file, "line": int(m.group(2)) if m else None,
                       "error": (m.group(3) if m else log_p[-1500:])[:1500],
                       "theorems_not_checked": thms})
    axioms = {}
    if pa:
        for n, txt in pa:
            if txt != "Closed under the global context":
                axioms[n] = txt
        missing = [t for t in thms if t not in [n for n, _ in pa]]
        if missing:
            broken.append({"kind": "proof", "error": "theorems without Print Assumptions: " + ", ".join(missing)})
        # allowed_axioms: {props file: [axiom names]} -- standard-library axioms a file is DECLARED to rest on (named in its header, in
        # DESIGN.md section 6 and in the evidence); every other file must be closed under the global context
        allowed_by_file = getattr(prop, "allowed_axioms", {}) or {}
        for n, txt in axioms.items():
            allowed = allowed_by_file.get(pa_file.get(n), []) if isinstance(allowed_by_file, dict) else list(allowed_by_file)
            for line in txt.split("\n")[1:]:
                if not line or line[0].isspace():
                    continue          # continuation of the previous axiom's type
                nm = line.strip().split(" ")[0]
                if nm not in allowed:
                    broken.append({"kind": "axiom", "theorem": n, "axiom": line.strip()})
    # thorough tier: independent re-check of the compiled property file and everything it depends on
    if tier == "thorough" and ok_props and pfiles:
        cov["coqchk"] = []
        for f in pfiles:
            mod = "PE." + f[:-2].replace("/", ".")
            rcc, outc = sh(f"coqchk -o -silent -Q theories PE {mod}", timeout=3000, cwd=COQ)
            summ = outc[outc.find("CONTEXT SUMMARY"):] if "CONTEXT SUMMARY" in outc else outc[-1500:]
            cov["coqchk"].append({"cmd": f"coqchk -o -silent -Q theories PE {mod}", "exit": rcc, "summary": summ.strip()[:3000]})
            m_ax = re.search(r"\* Axioms:\s*(.*?)\n\s*\n", summ, flags=re.S)
            listed = [] if (m_ax and m_ax.group(1).strip() == "<none>") else ([a.strip() for a in m_ax.group(1).split("\n") if a.strip()] if m_ax else None)
            # coqchk lists the axioms of EVERY library the file loads (Psatz/Lra load Coq.Reals and with it functional extensionality and the
            # classical real-number axioms) whether or not a theorem uses them; what the property theorems depend on is what Print Assumptions
            # reports (checked above: closed).  Standard-library axioms are recorded (trusted base), anything else is a broken obligation.
            cov["coqchk"][-1]["axioms_of_loaded_libraries"] = listed
            foreign = None if listed is None else [a for a in listed if not a.startswith("Coq.")]
            if rcc != 0 or listed is None or foreign:
                broken.append({"kind": "axiom", "theorem": mod, "axiom": "coqchk: " + ("; ".join(foreign) if foreign else summ[-500:])})
    # 1b. redundant tie: decision functions translated from the source = hand model (never a broken obligation by itself: the property's
    #     proof is theorems about the hand model + the correspondence; a lost equation triggers the search for a failing input below)
    lost_ties = {}
    if getattr(prop, "gen_tie_theorems", None):
        with BuildLock():
            gt = gen_tie(pid, prop.gen_tie_theorems)
        cov["redundant_tie"] = {"what": "Gen/Decisions.v, Gen/Loops.v (translated from the source on this run by translator/decisions.py, loops.py) = hand model, for all "
                                        "inputs (Props/GenTie.v, Props/GenTieLoops.v; each theorem closed under the global context)",
                                "translator": {k: (v or "ok") for k, v in gen.items() if k not in ("Enums.v", "LabelTables.v", "ConfigTables.v")}, "theorems": gt}
        lost_ties = {k: v for k, v in gt.items() if v != "checked"}
    cov["theorems"] = thms
    cov["nonvacuity_examples"] = examples
    cov["print_assumptions"] = {n: t for n, t in (pa or [])}

    # 2. correspondences (model vs implementation, compared inside Coq) + oracles on the side
    n_eval = 0
    nontrivial = set()
    samples = []
    corr_stats = {}
    n_corr = 0
    n_corr_ok = 0
    for c in prop.correspondences():
        n_corr += 1
        st = {"cases": 0, "nontrivial": 0, "coq_disagreements": 0, "oracle_failures": 0}
        corr_stats[c.name] = st
        _t = time.time()
        cases = list(c.cases(tier, rng))
        st["t_generate_s"] = round(time.time() - _t, 2)
        _t = time.time()
        obs = run_all(c, cases)
        st["t_impl_s"] = round(time.time() - _t, 2)
        hexc = [o for o in obs if isinstance(o, dict) and "__harness_exception__" in o]
        if hexc:
            broken.append({"kind": "correspondence", "name": c.name, "error": "harness exception", "detail": hexc[0]})
        st["cases"] = len(cases)
        n_eval += len(cases)
        for k, o in zip(cases, obs):
            if isinstance(o, dict) and "__harness_exception__" in o:
                continue       # the driver itself raised on this case (reported above as a broken correspondence)
            try:
                nt = c.nontrivial(k, o)
            except Exception:  # noqa: BLE001 -- a statistic must not take the check down
                nt = False
            if nt:
                nontrivial.add(c.name + canon(k))
                st["nontrivial"] += 1
        if hasattr(c, "distribution"):
            try:
                st["distribution"] = c.distribution([k for k, o in zip(cases, obs) if not (isinstance(o, dict) and "__harness_exception__" in o)],
                                                    [o for o in obs if not (isinstance(o, dict) and "__harness_exception__" in o)])
            except Exception as e:  # noqa: BLE001
                st["distribution"] = {"error": f"{type(e).__name__}: {e}"}
        if cases:
            for i in sorted({0, len(cases) // 2, len(cases) - 1}):
                try:
                    samples.append({"correspondence": c.name, **c.describe(cases[i], obs[i])})
                except Exception:  # noqa: BLE001
                    pass
        # oracle on every implementation output
        _t = time.time()
        for k, o in zip(cases, obs):
            if isinstance(o, dict) and "__harness_exception__" in o:
                continue
            try:
                msg = c.oracle(k, o)
            except Exception as e:  # noqa: BLE001 -- an output of a shape no oracle clause foresaw is itself a finding, never a crash
                msg = f"the implementation's output has an unexpected shape (oracle raised {type(e).__name__}: {str(e)[:200]})"
            if msg:
                st["oracle_failures"] += 1
                violations.append((c, k, o, msg))
        st["t_oracle_s"] = round(time.time() - _t, 2)
        _t = time.time()
        # the model, evaluated in Coq on the same inputs
        corr_ok = False
        if not ok_models:
            broken.append({"kind": "correspondence", "name": c.name, "error": "model does not compile", "detail": log_m[-1500:]})
        elif not hexc:
            try:
                terms = [c.coq_term(k, o) for k, o in zip(cases, obs)]
            except Exception as e:
                terms = None
                broken.append({"kind": "correspondence", "name": c.name, "error": f"emit failed: {type(e).__name__}: {e}", "detail": traceback.format_exc()[-1500:]})
            if terms is not None:
                failing, errors = eval_cases(f"{pid}_{c.name}", c.header, terms, shard=c.shard)
                st["coq_disagreements"] = len(failing)
                if errors:
                    broken.append({"kind": "correspondence", "name": c.name, "error": "coqc failed on cases", "detail": errors[:2]})
                elif failing:
                    i = failing[0]
                    dbg = c.coq_debug(cases[i], obs[i])
                    detail = {"first_disagreeing_case": cases[i], "implementation_output": obs[i], "n_disagreeing": len(failing)}
                    if dbg:
                        detail["model_output"] = eval_debug(f"{pid}_{c.name}", c.header, dbg)
                    broken.append({"kind": "correspondence", "name": c.name, "error": "model and implementation disagree", "detail": detail})
                else:
                    corr_ok = True
        st["t_coq_s"] = round(time.time() - _t, 2)
        if corr_ok:
            n_corr_ok += 1

    # 3. known findings
    known = [f for f in load_known() if f.get("property") == pid and f.get("status") == "known"]
    unlisted = []
    for (c, k, o, msg) in violations:
        hit = None
        for f in known:
            if prop.known_match(f, c.name, k, o, msg):
                hit = f
                break
        if hit is None:
            unlisted.append((c, k, o, msg))
        else:
            hit["_seen"] = True
    for f in known:
        still = f.get("_seen") or prop.known_probe(f)
        if still:
            known_lines.append(f"KNOWN-FINDING: property={pid} {f['what']}")

    # 4. verdict
    out_lines = []
    rc = 0
    if unlisted:
        c, k, o, msg = unlisted[0]
        path = write_replay(pid, {"property": pid, "correspondence": c.name, "case": k, "observed": o, "what": msg,
                                  "n_failing_inputs": len(unlisted), "seed": seed, "tier": tier})
        out_lines.append(f"VIOLATION property={pid} replay={path}")
        rc = 1
    elif broken:
        found = None
        try:
            found = prop.search(random.Random(seed + 1), 120 if tier == "quick" else 900)
        except Exception as e:
            broken.append({"kind": "search", "error": f"{type(e).__name__}: {e}"})
        if found and not any(prop.known_match(f, found[0].name, found[1], found[2], found[3]) for f in known):
            c, k, o, msg = found
            path = write_replay(pid, {"property": pid, "correspondence": c.name, "case": k, "observed": o, "what": msg,
                                      "broken": broken, "seed": seed, "tier": tier})
            out_lines.append(f"VIOLATION property={pid} replay={path}")
        else:
            path = write_replay(pid, {"property": pid, "no_failing_input_found": True, "broken": broken, "seed": seed, "tier": tier,
                                      "note": "a proof obligation / correspondence / translation no longer checks; the property is no longer shown to hold"})
            out_lines.append(f"VIOLATION property={pid} replay={path} no-failing-input-found")
        rc = 1
    elif lost_ties:
        # the translated definition no longer equals the hand model: either the source changed behaviour (then the correspondence above
        # or this wider search exhibits an input) or it was rewritten harmlessly beyond what the translator / the tactic absorbs
        found = None
        try:
            found = prop.search(random.Random(seed + 1), 90 if tier == "quick" else 600)
        except Exception as e:  # noqa: BLE001
            cov["redundant_tie"]["search_error"] = f"{type(e).__name__}: {e}"
        if found and not any(prop.known_match(f, found[0].name, found[1], found[2], found[3]) for f in known):
            c, k, o, msg = found
            path = write_replay(pid, {"property": pid, "correspondence": c.name, "case": k, "observed": o, "what": msg,
                                      "lost_redundant_tie": lost_ties, "seed": seed, "tier": tier})
            out_lines.append(f"VIOLATION property={pid} replay={path}")
            rc = 1
        else:
            cov["redundant_tie"]["note"] = ("equation(s) lost and no failing input found by the correspondence or the wider search: the property is still "
                                            "shown to hold by the hand-model theorems + correspondence of this run; the tie is by correspondence only")

    # 5. evidence
    n_thm = len(thms)
    obligations = n_thm + n_corr + (1 if getattr(prop, "gen_files", []) else 0)
    discharged = (n_thm if ok_props and not any(b["kind"] in ("proof", "axiom", "forbidden-construct") for b in broken) else 0) + n_corr_ok \
        + (1 if getattr(prop, "gen_files", []) and not any(b["kind"] == "translator" for b in broken) else 0)
    cov.update({
        "obligations": obligations,
        "discharged": discharged,
        "checker_cmd": f"cd /verif/coq && make {' '.join('theories/' + f[:-2] + '.vo' for f in pfiles)} && coqc -Q theories PE {' '.join('theories/' + f for f in pfiles)}  (Print Assumptions per theorem); correspondences: coqc on build/cases/{pid}_*/s*.v (Eval vm_compute in failing cases)",
        "trusted_base": TRUSTED_BASE_COMMON + list(prop.trusted_base_extra),
        "evaluations": n_eval,
        "distinct_nontrivial": len(nontrivial),
        "traces_validated_against_impl": n_eval,
        "rule": getattr(prop, "rule", "see per-correspondence distribution"),
        "samples": samples[:12],
        "correspondences": corr_stats,
        "axioms_reported": axioms,
        "not_proved": list(prop.not_proved),
        "broken_ties": broken,
        "known_findings_reported": known_lines,
    })
    ev["violations"] = 1 if rc else 0
    ev["wall_s"] = round(time.time() - t0, 2)
    os.makedirs(os.path.join(ROOT, "evidence"), exist_ok=True)
    with open(os.path.join(ROOT, "evidence", f"{pid}.json"), "w") as f:
        json.dump(ev, f, indent=1, default=str)
    if hasattr(prop, "cleanup"):
        try:
            prop.cleanup()
        except Exception:
            pass
    for l in known_lines:
        print(l)
    for l in out_lines:
        print(l)
    print(f"[{pid}] tier={tier} seed={seed} theorems={n_thm} correspondences={n_corr_ok}/{n_corr} cases={n_eval} "
          f"nontrivial={len(nontrivial)} broken={len(broken)} wall={ev['wall_s']}s -> exit {rc}")
    if broken:
        print(json.dumps(broken, indent=1, default=str)[:3000])
    return rc


def run_replay(prop, path):
    payload = json.load(open(path))
    if payload.get("no_failing_input_found"):
        print("replay file names broken obligations only (no failing input was found):")
        print(json.dumps(payload.get("broken"), indent=1)[:4000])
        return 1
    for c in prop.correspondences():
        if c.name == payload["correspondence"]:
            obs = safe_run(c, payload["case"])
            msg = c.oracle(payload["case"], obs)
            print(json.dumps({"case": payload["case"], "observed_now": obs, "oracle": msg}, indent=1, default=str)[:6000])
            if msg:
                print(f"VIOLATION property={prop.id} replay={path}")
                return 1
            print("replay: the property holds on this input now")
            return 0
    print("unknown correspondence in replay file")
    return 2
