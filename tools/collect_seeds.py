#!/usr/bin/env python3
"""tools/collect_seeds.py [/tmp/mut_out]  -> /verif/seeded/<Cxx>_<a|b>/{patch.diff, demo.py, notes.md, meta.json} + seeded/README.md

Copies every independently written breaking change that was CONFIRMED by tools/try_seed.py (demo passes on the clean tree, fails with
the change, the repository's own test suite passes with the change) and records what our check reported for it
(build/seed_results/<Cxx>_<v>.json; re-run results in build/seed_results/rerun_<Cxx>_<v>.json override the `after` column)."""
import json
import os
import re
import shutil
import sys

ROOT = os.path.dirname(os.path.dirname(os.path.abspath(__file__)))
# usage: collect_seeds.py [<src> <results dir> <a-name> <b-name>] ...   (default: round 1 and, if present, round 2)
ROUNDS = [("/tmp/mut_out", os.path.join(ROOT, "build", "seed_results"), {"a": "a", "b": "b"}),
          ("/tmp/mut_out2", os.path.join(ROOT, "build", "seed_results2"), {"a": "c", "b": "d"}),
          ("/tmp/mut_out4", os.path.join(ROOT, "build", "seed_results3"), {"a": "e", "b": "f"}),
          ("/tmp/mut_out5", os.path.join(ROOT, "build", "seed_results4"), {"a": "g", "b": "h"})]
DST = os.path.join(ROOT, "seeded")


def first_para(notes, key):
    m = re.search(key + r".*?\n(.*?)(?:\n#|\n\n\n|\Z)", notes, flags=re.S | re.I)
    return " ".join(m.group(1).split())[:700] if m else ""


def verdict(c):
    if not c:
        return "not run"
    if c.get("rc") == 1:
        return "CAUGHT" + (" (no-failing-input-found)" if c.get("no_failing_input") else "") + ": " + (c.get("what") or "")[:300]
    if c.get("rc") == 0:
        return "MISSED"
    return f"error rc={c.get('rc')}"


def main():
    rows = []
    for SRC, RES, names in ROUNDS:
      if not os.path.isdir(SRC):
          continue
      for pid in sorted(x for x in os.listdir(SRC) if os.path.isdir(os.path.join(SRC, x))):
        for v0 in ("a", "b"):
            v = names[v0]
            d = os.path.join(SRC, pid, v0)
            rj = os.path.join(RES, f"{pid}_{v0}.json")
            if not (os.path.isfile(os.path.join(d, "patch.diff")) and os.path.isfile(rj) and os.path.getsize(rj)):
                continue
            r = json.load(open(rj))
            confirmed = r.get("demo_clean_rc") == 0 and r.get("demo_mutant_rc") not in (0, None) and "passed" in str(r.get("tests_with_mutant")) \
                and "failed" not in str(r.get("tests_with_mutant"))
            first = (r.get("checks") or {}).get(pid)
            rr = os.path.join(RES, f"rerun_{pid}_{v0}.json")
            after = None
            if os.path.isfile(rr) and os.path.getsize(rr):
                after = (json.load(open(rr)).get("checks") or {}).get(pid)
            notes = open(os.path.join(d, "notes.md")).read() if os.path.isfile(os.path.join(d, "notes.md")) else ""
            files = sorted(set(re.findall(r"^\+\+\+ b/(\S+)", open(os.path.join(d, "patch.diff")).read(), flags=re.M)))
            meta = {
                "id": f"{pid}_{v}", "property": pid, "round": 1 if v in "ab" else (2 if v in "cd" else (3 if v in "ef" else 4)), "files_changed": files,
                "written_by": "independent sub-agent given only the property record and a scratch worktree of /repo",
                "confirmed": confirmed,
                "confirmation": {"demo_on_clean_tree_rc": r.get("demo_clean_rc"), "demo_with_change_rc": r.get("demo_mutant_rc"),
                                 "demo_with_change_tail": (r.get("demo_mutant_tail") or "")[-300:],
                                 "existing_test_suite_with_change": r.get("tests_with_mutant")},
                "what_was_run": f"tools/try_seed.py {d} {pid}  (scratch worktree: demo clean / demo with patch / full pytest with patch; then ./check {pid} quick "
                                f"against a patched copy of /repo through tools/mutcheck.py)",
                "check_result_first_run": verdict(first),
                "check_result_after_strengthening": verdict(after) if after else None,
                "needs_to_manifest": "see notes.md (written by the author of the change)",
            }
            if not confirmed:
                rows.append((meta["id"], "NOT CONFIRMED (kept out)", "", ""))
                continue
            out = os.path.join(DST, f"{pid}_{v}")
            os.makedirs(out, exist_ok=True)
            for fn in ("patch.diff", "demo.py", "notes.md"):
                if os.path.isfile(os.path.join(d, fn)):
                    shutil.copy(os.path.join(d, fn), os.path.join(out, fn))
            json.dump(meta, open(os.path.join(out, "meta.json"), "w"), indent=1)
            rows.append((meta["id"], ", ".join(os.path.basename(f) for f in files), verdict(first)[:160], (verdict(after)[:160] if after else "")))
    with open(os.path.join(DST, "README.md"), "w") as f:
        f.write("# Seeded breaking changes (written by independent sub-agents) and what the checks reported\n\n"
                "Each directory holds `patch.diff` (apply with `git -C /repo apply`), `demo.py` (exits 0 on the clean tree, non-zero with the change), the author's "
                "`notes.md` (what it needs to manifest) and `meta.json` (confirmation + check results). None of these changes is committed to /repo.\n\n"
                "| id | file(s) | `./check <property> quick` on first contact | after strengthening (if it was missed) |\n|---|---|---|---|\n")
        for r in rows:
            f.write("| " + " | ".join(x.replace("|", "/").replace("\n", " ") for x in r) + " |\n")
    print(len(rows), "rows")


if __name__ == "__main__":
    main()
