#!/bin/bash
# tools/run_refs.sh [/tmp/ref_out]  -> build/ref_results/Cxx_v.json : the property's quick check against a behaviour-preserving refactoring
cd "$(dirname "$0")/.."
SRC=${1:-/tmp/ref_out}
mkdir -p build/ref_results
for d in $(ls -d "$SRC"/C*/[ab]); do
  id=$(basename $(dirname $d)); v=$(basename $d); name=${id}_$v
  [ -f "$d/patch.diff" ] && [ -f "$d/notes.md" ] || continue
  [ -e build/ref_results/$name.json ] && continue
  touch build/ref_results/$name.json
  python3 tools/mutcheck.py --slot ${SLOT:-ref} --patch $d/patch.diff --props $id > build/ref_results/$name.json 2> build/ref_results/$name.err
  python3 - "$name" <<'PY'
import json,sys
n=sys.argv[1]
try:
    d=json.load(open(f"build/ref_results/{n}.json"))
    print(n, "applies" , d.get("applies"), {k:(v["rc"],(v.get("what") or "")[:200]) for k,v in d.get("checks",{}).items()}, flush=True)
except Exception as e:
    print(n,"ERROR",e,flush=True)
PY
done
