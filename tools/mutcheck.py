#!/usr/bin/env python3
"""tools/mutcheck.py --slot K --patch FILE --props C01,C02 [--tier quick] [--jobs 4] [--sync]

Runs our checks against a PATCHED copy of /repo without touching /repo or /verif:
  * /tmp/verif_iso_K            an rsync copy of /verif (sources + compiled .vo; no .git, no build/, own evidence/)
  * /tmp/verif_iso_K/build/repo a copy of /repo's working tree with the patch applied (VERIF_REPO points there)
Several slots can run at the same time.  Prints one JSON object:
  {"patch":..., "applies": bool, "checks": {Cxx: {"rc":..,"lines":[...], "what":..., "secs":..}}}
Used for seeded changes (tools/try_seed.py) and for the mutation sweep (tools/mutsweep.py).
Nothing registered in MANIFEST.json depends on this tool or on /tmp.
"""
import argparse
import json
import os
import shutil
import subprocess
import sys
import time

VERIF = os.path.dirname(os.path.dirname(os.path.abspath(__file__)))


def sh(cmd, cwd=None, env=None, timeout=3600):
    try:
        p = subprocess.run(cmd, shell=True, cwd=cwd, env=env, capture_output=True, text=True, timeout=timeout)
        return p.returncode, p.stdout + p.stderr
    except subprocess.TimeoutExpired:
        return 124, "TIMEOUT"


def sync(iso):
    os.makedirs(iso, exist_ok=True)
    rc, o = sh(f"rsync -a --delete --exclude .git --exclude /build --exclude /evidence --exclude /seeded "
               f"--exclude '.*.aux' {VERIF}/ {iso}/")
    assert rc == 0, o
    os.makedirs(os.path.join(iso, "build"), exist_ok=True)
    os.makedirs(os.path.join(iso, "evidence"), exist_ok=True)


def run(slot, patch, props, tier="quick", jobs=4, do_sync=False, repo="/repo", keep=False):
    iso = f"/tmp/verif_iso_{slot}"
    if do_sync or not os.path.exists(os.path.join(iso, "check")):
        sync(iso)
    scratch = os.path.join(iso, "build", "repo")
    shutil.rmtree(scratch, ignore_errors=True)
    os.makedirs(scratch)
    rc, o = sh(f"rsync -a --exclude .git --exclude __pycache__ {repo}/perception_eval {scratch}/")
    assert rc == 0, o
    out = {"patch": patch, "props": props}
    if patch:
        rc, o = sh(f"patch -p1 --no-backup-if-mismatch -s < {os.path.abspath(patch)}", cwd=scratch)
        out["applies"] = rc == 0
        if rc != 0:
            out["patch_error"] = o[-400:]
            return out
    env = dict(os.environ, VERIF_REPO=scratch, VERIF_JOBS=str(jobs))
    env.pop("VERIF_ROOT", None)
    res = {}
    for p in props:
        t = time.time()
        rc, o = sh(f"./check {p} {tier}", cwd=iso, env=env, timeout=3000)
        lines = [l for l in o.split("\n") if l.startswith(("VIOLATION", "KNOWN-FINDING", "[C"))]
        r = {"rc": rc, "lines": lines, "secs": round(time.time() - t)}
        if rc not in (0, 1):
            r["tail"] = o[-600:]
        for l in lines:
            if l.startswith("VIOLATION") and "replay=" in l:
                rp = l.split("replay=")[1].split()[0]
                try:
                    d = json.load(open(rp))
                    r["what"] = (d.get("what") or ("no failing input; broken: " + "; ".join(str(b.get("error")) for b in d.get("broken", []))))[:600]
                    r["no_failing_input"] = "no-failing-input-found" in l
                except Exception:
                    pass
        res[p] = r
    out["checks"] = res
    if not keep:
        shutil.rmtree(scratch, ignore_errors=True)
    # the Gen/ files of the copy were regenerated from the patched tree: restore them from the real repository
    sh(f"python3 {iso}/translator/py_to_coq.py {repo} {iso}/coq/theories/Gen")
    return out


if __name__ == "__main__":
    ap = argparse.ArgumentParser()
    ap.add_argument("--slot", default="0")
    ap.add_argument("--patch", default=None)
    ap.add_argument("--props", required=True)
    ap.add_argument("--tier", default="quick")
    ap.add_argument("--jobs", type=int, default=4)
    ap.add_argument("--sync", action="store_true")
    ap.add_argument("--keep", action="store_true")
    a = ap.parse_args()
    print(json.dumps(run(a.slot, a.patch, a.props.split(","), a.tier, a.jobs, a.sync, keep=a.keep), indent=1))
