#!/usr/bin/env python3
"""tools/mutsweep.py gen   [--per-prop N] [--seed S]      enumerate first-order mutants of the code each property is anchored in
   tools/mutsweep.py run   [--slots K] [--props C01,..]    run the property's quick check against every mutant (isolated copies,
                                                           tools/mutcheck.py); mutants the check misses are then run against the
                                                           repository's own test suite (a mutant the tests kill is of no interest)
   tools/mutsweep.py report                                 table: per property caught / missed-but-killed-by-tests / SURVIVORS

A measuring instrument for the checks (which realistic one-token changes of the anchored code do they notice?), not a check:
nothing in MANIFEST.json depends on it.  Everything lives under /tmp/mutsweep (patches, results) -- results worth keeping are
copied to /verif/seeded/sweep/ by hand after triage (a survivor is either an equivalent mutant or a gap in a generator / oracle).
"""
import ast
import json
import os
import random
import re
import subprocess
import sys
import time
from concurrent.futures import ThreadPoolExecutor

VERIF = os.path.dirname(os.path.dirname(os.path.abspath(__file__)))
REPO = "/repo"
PKG = os.path.join(REPO, "perception_eval", "perception_eval")
OUT = "/tmp/mutsweep"
RECHECK_ROUND = 3   # bumped whenever the harness was strengthened and the survivors are to be looked at again
SLACK = 25        # anchors carry line numbers of the pinned commit; the fix: commits moved things by a few lines

sys.path.insert(0, os.path.join(VERIF, "tools"))


def anchors():
    """property id -> list of (relative file, lo, hi)"""
    out = {}
    for l in open(os.path.join(VERIF, "properties.jsonl")):
        p = json.loads(l)
        rng = []
        for m in p["anchors"].get("mechanism", []):
            for part in m["where"].split(";"):
                mm = re.match(r"\s*([\w/\.]+\.py):([\d,\-\s]+)", part)
                if not mm:
                    continue
                f = mm.group(1)
                for r in mm.group(2).split(","):
                    r = r.strip()
                    if not r:
                        continue
                    lo, hi = (r.split("-") + [r])[:2]
                    rng.append((f, int(lo), int(hi)))
        out[p["id"]] = rng
    return out


CMP = {ast.Lt: ("<", "<="), ast.LtE: ("<=", "<"), ast.Gt: (">", ">="), ast.GtE: (">=", ">"), ast.Eq: ("==", "!="), ast.NotEq: ("!=", "=="),
       ast.Is: ("is", "is not"), ast.IsNot: ("is not", "is"), ast.In: ("in", "not in"), ast.NotIn: ("not in", "in")}
CMP2 = {ast.Lt: ("<", ">"), ast.Gt: (">", "<"), ast.LtE: ("<=", ">="), ast.GtE: (">=", "<=")}
BIN = {ast.Add: ("+", "-"), ast.Sub: ("-", "+"), ast.Mult: ("*", "/"), ast.Div: ("/", "*")}
CALLS = {"min": "max", "max": "min", "any": "all", "all": "any", "argmin": "argmax", "argmax": "argmin", "nanargmin": "nanargmax", "nanargmax": "nanargmin"}


def seg(src_lines, node):
    return ast.get_source_segment("".join(src_lines), node)


def between(src, a_end, b_start):
    """source text between two (line, col) positions (1-based line)"""
    lines = src.split("\n")
    (l1, c1), (l2, c2) = a_end, b_start
    if l1 == l2:
        return lines[l1 - 1][c1:c2]
    return None


def mutants_of_file(path, ranges):
    """yield (line, description, new_source)"""
    src = open(path).read()
    lines = src.split("\n")
    tree = ast.parse(src)

    def inr(n):
        return any(lo - SLACK <= n.lineno <= hi + SLACK for lo, hi in ranges)

    def replace_span(l, c1, c2, new):
        ls = list(lines)
        ls[l - 1] = ls[l - 1][:c1] + new + ls[l - 1][c2:]
        return "\n".join(ls)

    out = []
    for node in ast.walk(tree):
        if not hasattr(node, "lineno") or not inr(node):
            continue
        if isinstance(node, ast.Compare):
            operands = [node.left] + node.comparators
            for i, op in enumerate(node.ops):
                a, b = operands[i], operands[i + 1]
                if a.end_lineno != b.lineno:
                    continue
                txt = lines[a.end_lineno - 1][a.end_col_offset:b.col_offset]
                for table in (CMP, CMP2):
                    if type(op) in table:
                        old, new = table[type(op)]
                        k = txt.find(old)
                        if k < 0 or txt.strip().strip("()") != old:
                            continue
                        c1 = a.end_col_offset + k
                        out.append((node.lineno, f"{old} -> {new}", replace_span(a.end_lineno, c1, c1 + len(old), new)))
        elif isinstance(node, ast.BoolOp):
            for a, b in zip(node.values, node.values[1:]):
                if a.end_lineno != b.lineno:
                    continue
                txt = lines[a.end_lineno - 1][a.end_col_offset:b.col_offset]
                old = "and" if isinstance(node.op, ast.And) else "or"
                new = "or" if old == "and" else "and"
                if txt.strip().strip("()") != old:
                    continue
                c1 = a.end_col_offset + txt.find(old)
                out.append((node.lineno, f"{old} -> {new}", replace_span(a.end_lineno, c1, c1 + len(old), new)))
        elif isinstance(node, ast.BinOp) and type(node.op) in BIN:
            a, b = node.left, node.right
            if a.end_lineno != b.lineno:
                continue
            if isinstance(a, ast.Constant) and isinstance(a.value, str) or isinstance(b, ast.Constant) and isinstance(b.value, str) or isinstance(a, ast.JoinedStr):
                continue
            txt = lines[a.end_lineno - 1][a.end_col_offset:b.col_offset]
            old, new = BIN[type(node.op)]
            if txt.strip().strip("()") != old:
                continue
            c1 = a.end_col_offset + txt.find(old)
            out.append((node.lineno, f"{old} -> {new}", replace_span(a.end_lineno, c1, c1 + len(old), new)))
        elif isinstance(node, ast.UnaryOp) and isinstance(node.op, ast.Not) and node.lineno == node.end_lineno:
            s = lines[node.lineno - 1][node.col_offset:node.end_col_offset]
            if s.startswith("not "):
                out.append((node.lineno, "drop not", replace_span(node.lineno, node.col_offset, node.col_offset + 4, "")))
        elif isinstance(node, ast.UnaryOp) and isinstance(node.op, ast.USub) and node.lineno == node.end_lineno and not isinstance(node.operand, ast.Constant):
            out.append((node.lineno, "drop unary minus", replace_span(node.lineno, node.col_offset, node.col_offset + 1, "")))
        elif isinstance(node, ast.Constant) and node.lineno == node.end_lineno:
            v = node.value
            s = lines[node.lineno - 1][node.col_offset:node.end_col_offset]
            if v is True or v is False:
                out.append((node.lineno, f"{v} -> {not v}", replace_span(node.lineno, node.col_offset, node.end_col_offset, str(not v))))
            elif isinstance(v, int) and not isinstance(v, bool) and abs(v) <= 10:
                for nv in ({0: [1], 1: [0, 2]}.get(v, [v - 1, v + 1])):
                    out.append((node.lineno, f"{v} -> {nv}", replace_span(node.lineno, node.col_offset, node.end_col_offset, str(nv))))
            elif isinstance(v, float) and s not in ("",):
                nv = 1.0 if v == 0.0 else (0.0 if v == 1.0 else v * 2)
                out.append((node.lineno, f"{v} -> {nv}", replace_span(node.lineno, node.col_offset, node.end_col_offset, repr(nv))))
        elif isinstance(node, ast.Call) and node.lineno == node.end_lineno:
            f = node.func
            name = f.id if isinstance(f, ast.Name) else (f.attr if isinstance(f, ast.Attribute) else None)
            if name in CALLS:
                c2 = f.end_col_offset
                c1 = c2 - len(name)
                out.append((node.lineno, f"{name} -> {CALLS[name]}", replace_span(node.lineno, c1, c2, CALLS[name])))
            if name == "abs" and isinstance(f, ast.Name) and len(node.args) == 1:
                a = node.args[0]
                inner = lines[node.lineno - 1][a.col_offset:a.end_col_offset]
                out.append((node.lineno, "drop abs", replace_span(node.lineno, node.col_offset, node.end_col_offset, "(" + inner + ")")))
        elif isinstance(node, (ast.Continue, ast.Break)):
            kw = "continue" if isinstance(node, ast.Continue) else "break"
            out.append((node.lineno, f"{kw} -> pass", replace_span(node.lineno, node.col_offset, node.end_col_offset, "pass")))
        elif isinstance(node, ast.If) and len(node.body) == 1 and isinstance(node.body[0], (ast.Return, ast.Raise)) and not node.orelse \
                and node.body[0].lineno == node.body[0].end_lineno:
            b = node.body[0]
            out.append((b.lineno, "guarded return/raise -> pass", replace_span(b.lineno, b.col_offset, b.end_col_offset, "pass")))
        elif isinstance(node, ast.Subscript) and node.lineno == node.end_lineno and isinstance(node.slice, ast.Constant) and isinstance(node.slice.value, int):
            pass  # covered by the integer-constant operator
        elif isinstance(node, ast.Slice):
            pass
    # de-duplicate and drop mutants that do not parse / do not change the source
    seen, res = set(), []
    for ln, d, new in out:
        if new == src or new in seen:
            continue
        seen.add(new)
        try:
            ast.parse(new)
        except SyntaxError:
            continue
        res.append((ln, d, new))
    return res


def skip_line(text):
    t = text.strip()
    return t.startswith(("logger.", "logging.", "print(", "raise ", '"""', "#")) or "logger." in t or "__str__" in t or "warnings.warn" in t


def gen(per_prop, seed):
    import difflib

    rng = random.Random(seed)
    os.makedirs(OUT, exist_ok=True)
    index = []
    for pid, rngs in anchors().items():
        byfile = {}
        for f, lo, hi in rngs:
            byfile.setdefault(f, []).append((lo, hi))
        cands = []
        for f, rr in byfile.items():
            path = os.path.join(PKG, f)
            if not os.path.exists(path):
                continue
            src = open(path).read()
            for ln, d, new in mutants_of_file(path, rr):
                if skip_line(src.split("\n")[ln - 1]):
                    continue
                cands.append((f, ln, d, src, new))
        rng.shuffle(cands)
        # spread over lines: at most 2 mutants per source line first
        cands.sort(key=lambda c: 0)
        perline, chosen = {}, []
        for c in cands:
            k = (c[0], c[1])
            if perline.get(k, 0) >= 2:
                continue
            perline[k] = perline.get(k, 0) + 1
            chosen.append(c)
        total = len(chosen)
        chosen = chosen[:per_prop]
        for i, (f, ln, d, src, new) in enumerate(chosen):
            rel = f"perception_eval/perception_eval/{f}"
            diff = "".join(difflib.unified_diff(src.splitlines(True), new.splitlines(True), f"a/{rel}", f"b/{rel}", n=2))
            mid = f"{pid}_{i:03d}"
            pth = os.path.join(OUT, mid + ".diff")
            open(pth, "w").write(diff)
            index.append({"id": mid, "prop": pid, "file": f, "line": ln, "op": d, "patch": pth,
                          "text": src.split("\n")[ln - 1].strip()[:160]})
        print(pid, "candidates", total, "chosen", len(chosen))
    json.dump(index, open(os.path.join(OUT, "index.json"), "w"), indent=1)
    print("total", len(index))


def run_tests(patch, slot):
    """repository's own test suite on a patched worktree; returns the summary line"""
    wt = f"/tmp/mutsweep_wt_{slot}"
    subprocess.run(f"git -C {REPO} worktree remove --force {wt}", shell=True, capture_output=True)
    subprocess.run(f"git -C {REPO} worktree add -q --detach {wt} HEAD", shell=True, capture_output=True)
    try:
        p = subprocess.run(f"git -C {wt} apply {patch}", shell=True, capture_output=True, text=True)
        if p.returncode != 0:
            return "patch does not apply to HEAD"
        os.makedirs(f"{wt}/_tmp", exist_ok=True)   # the eda tests leave ~100 MB per run in $TMPDIR
        env = dict(os.environ, PYTHONPATH=f"{wt}/perception_eval", PYTHONHASHSEED="0", MPLBACKEND="Agg", TQDM_DISABLE="1", TMPDIR=f"{wt}/_tmp")
        p = subprocess.run("/venv/bin/python -m pytest -q -x -p no:cacheprovider --timeout=900 perception_eval/test 2>&1 | tail -1", shell=True, cwd=wt, env=env,
                           capture_output=True, text=True, timeout=2400)
        return p.stdout.strip().split("\n")[-1]
    finally:
        subprocess.run(f"git -C {REPO} worktree remove --force {wt}", shell=True, capture_output=True)


def run(slots, props):
    import mutcheck

    index = json.load(open(os.path.join(OUT, "index.json")))
    todo = [m for m in index if (not props or m["prop"] in props) and not os.path.exists(os.path.join(OUT, m["id"] + ".json"))]
    print("to run:", len(todo))
    for s in range(slots):
        mutcheck.sync(f"/tmp/verif_iso_sw{s}")
    import queue

    q = queue.Queue()
    for s in range(slots):
        q.put(s)

    def one(m):
        s = q.get()
        try:
            t = time.time()
            r = mutcheck.run(f"sw{s}", m["patch"], [m["prop"]], jobs=max(2, 16 // slots))
            c = r.get("checks", {}).get(m["prop"], {})
            res = dict(m, rc=c.get("rc"), what=c.get("what"), nfi=c.get("no_failing_input"), secs=round(time.time() - t), tail=c.get("tail"))
            if c.get("rc") == 0:
                res["tests"] = run_tests(m["patch"], f"sw{s}")
            json.dump(res, open(os.path.join(OUT, m["id"] + ".json"), "w"), indent=1)
            print(m["id"], "rc", res["rc"], res.get("tests", ""), m["op"], "|", m["text"][:80], flush=True)
        except Exception as e:
            print(m["id"], "ERROR", e, flush=True)
        finally:
            q.put(s)

    with ThreadPoolExecutor(slots) as ex:
        list(ex.map(one, todo))


def report():
    index = json.load(open(os.path.join(OUT, "index.json")))
    tab = {}
    surv = []
    for m in index:
        p = os.path.join(OUT, m["id"] + ".json")
        if not os.path.exists(p):
            continue
        r = json.load(open(p))
        t = tab.setdefault(m["prop"], {"caught": 0, "caught_nfi": 0, "missed_tests_kill": 0, "survivor": 0, "error": 0})
        if r["rc"] == 1:
            t["caught"] += 1
            t["caught_nfi"] += bool(r.get("nfi"))
        elif r["rc"] == 0:
            if "passed" in str(r.get("tests")) and "failed" not in str(r.get("tests")):
                t["survivor"] += 1
                surv.append(r)
            else:
                t["missed_tests_kill"] += 1
        else:
            t["error"] += 1
    for k in sorted(tab):
        print(k, tab[k])
    print("\nSURVIVORS (check passed, tests passed): equivalent mutant or gap")
    for r in surv:
        cx = r.get("cross")
        tag = "" if cx is None else (" caught-by:" + ",".join(q for q, c in cx.items() if c["rc"] == 1) if any(c["rc"] == 1 for c in cx.values()) else " (no neighbour catches it)")
        print(f"  {r['id']} {r['file']}:{r['line']} [{r['op']}] {r['text'][:110]}{tag}")


def cross(slot="x0", shard=0, nshards=1):
    """survivors re-run against every OTHER property anchored in the same file (a mutant in a shared file may belong to a neighbour)"""
    import mutcheck

    index = json.load(open(os.path.join(OUT, "index.json")))
    anc = anchors()
    mutcheck.sync(f"/tmp/verif_iso_{slot}")
    for i_m, m in enumerate(index):
        if i_m % nshards != shard:
            continue
        p = os.path.join(OUT, m["id"] + ".json")
        if not os.path.exists(p):
            continue
        r = json.load(open(p))
        if r.get("rc") != 0 or "passed" not in str(r.get("tests")) or "failed" in str(r.get("tests")) or r.get("cross_round") == RECHECK_ROUND:
            continue
        r["cross_round"] = RECHECK_ROUND
        others = sorted(q for q, rr in anc.items() if q != m["prop"] and any(f == m["file"] for f, _, _ in rr))
        res = mutcheck.run(slot, m["patch"], others, jobs=6).get("checks", {}) if others else {}
        r["cross"] = {q: {"rc": c.get("rc"), "what": (c.get("what") or "")[:200]} for q, c in res.items()}
        json.dump(r, open(p, "w"), indent=1)
        print(m["id"], m["file"], m["line"], m["op"], "->", {q: c["rc"] for q, c in r["cross"].items()}, flush=True)


def recheck(slot="rc0", shard=0, nshards=1, redo=False):
    """survivors re-run with the CURRENT harness (the sweep's isolated copies date from the start of the sweep);
    `recheck --shard=K --of=N --slot=S` runs every N-th survivor in its own isolated copy so that several can run side by side"""
    import mutcheck

    index = json.load(open(os.path.join(OUT, "index.json")))
    mutcheck.sync(f"/tmp/verif_iso_{slot}")
    for i_m, m in enumerate(index):
        if i_m % nshards != shard:
            continue
        p = os.path.join(OUT, m["id"] + ".json")
        if not os.path.exists(p):
            continue
        r = json.load(open(p))
        if r.get("rc") != 0 or "passed" not in str(r.get("tests")) or "failed" in str(r.get("tests")):
            continue
        if r.get("recheck_round") == RECHECK_ROUND and not redo:
            continue
        c = mutcheck.run(slot, m["patch"], [m["prop"]], jobs=4).get("checks", {}).get(m["prop"], {})
        r["recheck_round"] = RECHECK_ROUND
        r["recheck"] = {"rc": c.get("rc"), "what": (c.get("what") or "")[:200]}
        if c.get("rc") == 1:
            r["rc"], r["what"], r["nfi"], r["caught_on_recheck"] = 1, c.get("what"), c.get("no_failing_input"), True
        json.dump(r, open(p, "w"), indent=1)
        print(m["id"], m["file"], m["line"], m["op"], "->", c.get("rc"), (c.get("what") or "")[:100], flush=True)


def _func_at(cache, file, line):
    if file not in cache:
        tree = ast.parse(open(os.path.join(PKG, file)).read())
        cache[file] = [(n.lineno, n.end_lineno, n.name) for n in ast.walk(tree) if isinstance(n, (ast.FunctionDef, ast.AsyncFunctionDef))]
    best = None
    for lo, hi, name in cache[file]:
        if lo <= line <= hi and (best is None or lo > best[0]):
            best = (lo, hi, name)
    return best[2] if best else "<module>"


def summary(path=None):
    """seeded/sweep_summary.md: totals per property and the survivors grouped by enclosing function with the triage of tools/sweep_triage.json
    ({"file:function": "verdict: reason"}; a survivor whose function has no entry is listed as UNTRIAGED)"""
    index = json.load(open(os.path.join(OUT, "index.json")))
    tri_p = os.path.join(VERIF, "tools", "sweep_triage.json")
    triage = json.load(open(tri_p)) if os.path.exists(tri_p) else {}
    cache, tab, groups = {}, {}, {}
    for m in index:
        p = os.path.join(OUT, m["id"] + ".json")
        if not os.path.exists(p):
            continue
        r = json.load(open(p))
        t = tab.setdefault(m["prop"], {"mutants": 0, "own": 0, "own_nfi": 0, "neighbour": 0, "tests": 0, "survivor": 0})
        t["mutants"] += 1
        if r["rc"] == 1:
            t["own"] += 1
            t["own_nfi"] += bool(r.get("nfi"))
        elif r["rc"] == 0:
            if not ("passed" in str(r.get("tests")) and "failed" not in str(r.get("tests"))):
                t["tests"] += 1
            elif any(c.get("rc") == 1 for c in (r.get("cross") or {}).values()):
                t["neighbour"] += 1
            else:
                t["survivor"] += 1
                key = f"{m['file']}:{_func_at(cache, m['file'], m['line'])}"
                groups.setdefault(key, []).append(m)
    lines = ["# First-order mutation sweep of the anchored code (tools/mutsweep.py)\n",
             "A measuring instrument for the checks, not a check. Mutants: comparison / boolean / arithmetic operator flips, small constants, "
             "`min/max/any/all/argmin/argmax`, dropped `not` / `abs` / unary minus, `continue|break -> pass`, guarded `return|raise -> pass`, on the "
             "lines each property is anchored in (+- 25 lines, because the anchors carry the line numbers of the pinned commit), at most 40 per "
             "property. Each mutant: the property's quick check in an isolated copy (tools/mutcheck.py); if missed, the repository's own test "
             "suite; if that passes too, the quick checks of the OTHER properties anchored in the same file (`cross`). Survivors were re-run "
             f"with the current harness (`recheck`, round {RECHECK_ROUND}).\n",
             "| property | mutants | caught by its own check | (of which without a concrete input) | caught by a neighbouring property's check | killed only by the repository's tests | survivors |",
             "|---|---|---|---|---|---|---|"]
    tot = {k: 0 for k in ("mutants", "own", "own_nfi", "neighbour", "tests", "survivor")}
    for pid in sorted(tab):
        t = tab[pid]
        for k in tot:
            tot[k] += t[k]
        lines.append(f"| {pid} | {t['mutants']} | {t['own']} | {t['own_nfi']} | {t['neighbour']} | {t['tests']} | {t['survivor']} |")
    lines.append(f"| **all** | {tot['mutants']} | {tot['own']} | {tot['own_nfi']} | {tot['neighbour']} | {tot['tests']} | {tot['survivor']} |")
    lines.append("\n\"Killed only by the repository's tests\" are mutants of code that the anchors' line ranges include but the property does not "
                 "speak about (the tests pin it); they are listed in /tmp/mutsweep while the sweep's scratch directory exists.\n")
    lines.append("## Survivors (no check and no test notices them), grouped by the function they sit in\n")
    lines.append("| function | mutants (id: line, change) | triage |")
    lines.append("|---|---|---|")
    for key in sorted(groups):
        ms = groups[key]
        desc = "; ".join(f"{m['id']}: {m['line']} `{m['op']}`" for m in ms)
        lines.append(f"| `{key}` | {desc} | {triage.get(key, 'UNTRIAGED')} |")
    out = path or os.path.join(VERIF, "seeded", "sweep_summary.md")
    open(out, "w").write("\n".join(lines) + "\n")
    print(out, "survivor groups:", len(groups), "untriaged:", sum(1 for k in groups if k not in triage))


if __name__ == "__main__":
    cmd = sys.argv[1]
    arg = lambda k, d: next((a.split("=", 1)[1] for a in sys.argv if a.startswith(k + "=")), d)
    if cmd == "gen":
        gen(int(arg("--per-prop", "40")), int(arg("--seed", "1")))
    elif cmd == "cross":
        cross(arg("--slot", "x0"), int(arg("--shard", "0")), int(arg("--of", "1")))
    elif cmd == "recheck":
        recheck(arg("--slot", "rc0"), int(arg("--shard", "0")), int(arg("--of", "1")), "--redo" in sys.argv)
    elif cmd == "summary":
        summary()
    elif cmd == "run":
        run(int(arg("--slots", "3")), [x for x in arg("--props", "").split(",") if x])
    else:
        report()
