#!/bin/bash
# tools/run_seeds.sh <dir-with-Cxx/{a,b}/patch.diff,demo.py> [--skip-tests]   -> build/seed_results/Cxx_a.json ...
# Confirms each independently written change (tools/try_seed.py) and runs the property's quick check against it.
cd "$(dirname "$0")/.."
SRC=${1:-/tmp/mut_out}; shift
RES=${RESDIR:-build/seed_results}
mkdir -p $RES
LIST=$(ls -d "$SRC"/C*/[ab]); [ -n "${REVERSE:-}" ] && LIST=$(echo "$LIST" | tac)
for d in $LIST; do
  id=$(basename $(dirname $d)); v=$(basename $d); name=${id}_$v
  [ -f "$d/patch.diff" ] && [ -f "$d/demo.py" ] && [ -f "$d/notes.md" ] || continue
  [ -e $RES/$name.json ] && continue
  touch $RES/$name.json
  timeout 3600 python3 tools/try_seed.py "$d" $id --slot=${SLOT:-seed} "$@" > $RES/$name.json 2> $RES/$name.err
  python3 - "$name" <<'PY'
import json,sys
n=sys.argv[1]
try:
    import os
    d=json.load(open(os.environ.get("RESDIR","build/seed_results")+f"/{n}.json"))
    print(n,"demo clean/mutant rc:",d.get("demo_clean_rc"),d.get("demo_mutant_rc"),"| tests:",d.get("tests_with_mutant"),"|",{k:(v["rc"],(v.get("what") or "")[:140]) for k,v in d.get("checks",{}).items()},flush=True)
except Exception as e:
    print(n,"ERROR",e,flush=True)
PY
done
