#!/bin/bash
# tools/sweep_ctl.sh stop|start [slots]  -- (re)start the background mutation sweep; unfinished records are redone
cd "$(dirname "$0")/.."
if [ "$1" = stop ] || [ "$1" = restart ]; then
  for p in $(pgrep -f "tools/mutsweep.py run"); do kill $p 2>/dev/null; done
  sleep 2
  for w in $(git -C /repo worktree list | grep mutsweep_wt | awk '{print $1}'); do git -C /repo worktree remove --force $w; done
fi
if [ "$1" = start ] || [ "$1" = restart ]; then
  python3 - <<'PY'
import json,glob,os
for f in glob.glob('/tmp/mutsweep/C*.json'):
    try: r=json.load(open(f))
    except Exception: os.remove(f); continue
    if r.get('rc') not in (0,1) or (r.get('rc')==0 and not r.get('tests')):
        os.remove(f)
PY
  nohup python3 tools/mutsweep.py run --slots=${2:-3} >> /tmp/mutsweep/run.log 2>&1 &
fi
