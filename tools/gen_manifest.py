#!/usr/bin/env python3
"""Regenerate /verif/MANIFEST.json from the per-property metadata in harness/props/Cxx.py."""
import importlib
import json
import os
import sys

ROOT = os.path.dirname(os.path.dirname(os.path.abspath(__file__)))
sys.path.insert(0, ROOT)
os.environ.setdefault("VERIF_ROOT", ROOT)

BASELINE = "cd /repo && /venv/bin/python -m pytest -ra -q -p no:cacheprovider --timeout=900 --continue-on-collection-errors"
ALL = [json.loads(l)["id"] for l in open(os.path.join(ROOT, "properties.jsonl"))]

checks, na = [], []
for pid in ALL:
    path = os.path.join(ROOT, "harness", "props", f"{pid}.py")
    if not os.path.exists(path):
        na.append({"property_id": pid, "reason": "check not built yet in this round (planned in DESIGN.md section 4; the technique applies)"})
        continue
    try:
        mod = importlib.import_module(f"harness.props.{pid}")
        p = mod.PROP
    except Exception:
        mod, p = None, None
    if p is None or not getattr(mod, "READY", False):
        na.append({"property_id": pid, "reason": "check under construction in this round, not yet claimed (the technique applies; see DESIGN.md section 4)"})
        continue
    if getattr(p, "not_applicable_reason", None):
        na.append({"property_id": pid, "reason": p.not_applicable_reason})
        continue
    checks.append({
        "property_id": pid,
        "quick_cmd": f"./check {pid} quick",
        "thorough_cmd": f"./check {pid} thorough",
        "evidence_file": f"/verif/evidence/{pid}.json",
        "replay_cmd_template": f"./check {pid} --replay {{path}}",
        "engine": "rocq-proof+correspondence",
        "level_claimed": {"category": "proof", "text": p.level_text, "design_ref": p.design_ref},
        "level_note": p.level_note,
        "technique": p.technique,
    })

manifest = {
    "version": 1,
    "setup_cmd": "./setup.sh",
    "hooks": {
        "guard": "PERCEPTION_EVAL_VERIF",
        "enable": "no source hook is needed: every observation point is public API; ./check exports PERCEPTION_EVAL_VERIF=1 (unused by /repo)",
        "baseline_off_cmd": BASELINE,
        "source_commits": [],
        "add_only": True,
    },
    "engines": [{
        "name": "rocq-proof+correspondence",
        "path": "/verif/check",
        "serves_properties": [c["property_id"] for c in checks],
        "kind_free_text": "Coq 8.16.1 theorems about Gallina models (coq/theories), tied to /repo on every run by a Python-ast translator "
                          "(Gen/*.v regenerated) and/or by an in-Coq correspondence check (vm_compute on the inputs the implementation ran); "
                          "redundantly, the decision / loop functions are translated from the source on every run and proved equal to the hand models (Props/GenTie*.v); Python property oracles only search for a failing input",
    }],
    "checks": checks,
    "not_applicable": na,
    "notes": "See DESIGN.md. fix: commits in /repo and unrepaired findings are recorded in known_findings.json.",
}
with open(os.path.join(ROOT, "MANIFEST.json"), "w") as f:
    json.dump(manifest, f, indent=1)
print(f"{len(checks)} checks, {len(na)} not claimed")
