#!/usr/bin/env python3
"""tools/try_seed.py <seed_dir> <Cxx[,Cyy]> [--skip-tests] [--slot=K] [--sync]

Confirms a seeded change (patch.diff + demo.py) independently and runs our checks against it:
 1. fresh scratch worktree of /repo under /tmp: demo passes on the clean tree;
 2. patch applies; demo fails with it; the full existing test suite still passes with it;
 3. ./check for the given properties against the patched tree
    (a patched scratch copy of /repo through VERIF_REPO, inside an isolated copy of /verif: tools/mutcheck.py);
 4. prints a JSON summary (and the scratch worktree is removed).
"""
import json
import os
import shutil
import subprocess
import sys
import time

ROOT = os.path.dirname(os.path.dirname(os.path.abspath(__file__)))


def sh(cmd, cwd=None, env=None, timeout=3600):
    p = subprocess.run(cmd, shell=True, cwd=cwd, env=env, capture_output=True, text=True, timeout=timeout)
    return p.returncode, (p.stdout + p.stderr)


def main():
    seed = os.path.abspath(sys.argv[1])
    props = sys.argv[2].split(",")
    skip_tests = "--skip-tests" in sys.argv
    patch = os.path.join(seed, "patch.diff")
    demo = os.path.join(seed, "demo.py")
    wt = f"/tmp/seedwt_{os.getpid()}"
    out = {"seed": seed, "props": props}
    sh(f"git -C /repo worktree add -q --detach {wt} HEAD")
    try:
        os.makedirs(f"{wt}/_tmp", exist_ok=True)   # the eda tests leave ~100 MB per run in $TMPDIR; removed with the worktree
        env = dict(os.environ, PYTHONPATH=f"{wt}/perception_eval", PYTHONHASHSEED="0", MPLBACKEND="Agg", TQDM_DISABLE="1", TMPDIR=f"{wt}/_tmp")
        shutil.copy(demo, os.path.join(wt, "demo.py"))
        rc, o = sh("/venv/bin/python -W ignore demo.py", cwd=wt, env=env, timeout=900)
        out["demo_clean_rc"] = rc
        out["demo_clean_tail"] = o[-300:]
        rc, o = sh(f"git -C {wt} apply {patch}")
        out["patch_applies"] = rc == 0
        if rc != 0:
            out["patch_error"] = o[-500:]
            return out
        rc, o = sh("/venv/bin/python -W ignore demo.py", cwd=wt, env=env, timeout=900)
        out["demo_mutant_rc"] = rc
        out["demo_mutant_tail"] = o[-400:]
        if not skip_tests:
            os.remove(os.path.join(wt, "demo.py"))
            t = time.time()
            rc, o = sh("/venv/bin/python -m pytest -q -p no:cacheprovider perception_eval/test 2>&1 | tail -3", cwd=wt, env=env, timeout=1800)
            out["tests_with_mutant"] = o.strip().split("\n")[-1]
            out["tests_s"] = round(time.time() - t)
        # our checks, against a patched copy of /repo in an isolated copy of /verif (tools/mutcheck.py)
        sys.path.insert(0, os.path.join(ROOT, "tools"))
        import mutcheck
        slot = "0"
        for a in sys.argv:
            if a.startswith("--slot="):
                slot = a.split("=", 1)[1]
        res = mutcheck.run(slot, patch, props, do_sync="--sync" in sys.argv).get("checks", {})
        out["checks"] = res
        return out
    finally:
        sh(f"git -C /repo worktree remove --force {wt}")


if __name__ == "__main__":
    r = main()
    print(json.dumps(r, indent=1))
