#!/usr/bin/env python3
"""tools/try_seed.py <seed_dir> <Cxx[,Cyy]> [--skip-tests] [--in-repo]

Confirms a seeded change (patch.diff + demo.py) independently and runs our checks against it:
 1. fresh scratch worktree of /repo under /tmp: demo passes on the clean tree;
 2. patch applies; demo fails with it; the full existing test suite still passes with it;
 3. ./check for the given properties against the patched tree
    (default: a scratch copy through VERIF_REPO so that concurrent work on /repo is not disturbed;
     --in-repo: git -C /repo apply ... ; run ; git -C /repo checkout -- .);
 4. prints a JSON summary (and the scratch worktree is removed).
"""
import json
import os
import shutil
import subprocess
import sys
import time

ROOT = os.path.dirname(os.path.dirname(os.path.abspath(__file__)))


def sh(cmd, cwd=None, env=None, timeout=3600):
    p = subprocess.run(cmd, shell=True, cwd=cwd, env=env, capture_output=True, text=True, timeout=timeout)
    return p.returncode, (p.stdout + p.stderr)


def main():
    seed = os.path.abspath(sys.argv[1])
    props = sys.argv[2].split(",")
    skip_tests = "--skip-tests" in sys.argv
    in_repo = "--in-repo" in sys.argv
    patch = os.path.join(seed, "patch.diff")
    demo = os.path.join(seed, "demo.py")
    wt = f"/tmp/seedwt_{os.getpid()}"
    out = {"seed": seed, "props": props}
    sh(f"git -C /repo worktree add -q --detach {wt} HEAD")
    try:
        env = dict(os.environ, PYTHONPATH=f"{wt}/perception_eval", PYTHONHASHSEED="0", MPLBACKEND="Agg", TQDM_DISABLE="1")
        shutil.copy(demo, os.path.join(wt, "demo.py"))
        rc, o = sh("/venv/bin/python -W ignore demo.py", cwd=wt, env=env, timeout=900)
        out["demo_clean_rc"] = rc
        out["demo_clean_tail"] = o[-300:]
        rc, o = sh(f"git -C {wt} apply {patch}")
        out["patch_applies"] = rc == 0
        if rc != 0:
            out["patch_error"] = o[-500:]
            return out
        rc, o = sh("/venv/bin/python -W ignore demo.py", cwd=wt, env=env, timeout=900)
        out["demo_mutant_rc"] = rc
        out["demo_mutant_tail"] = o[-400:]
        if not skip_tests:
            os.remove(os.path.join(wt, "demo.py"))
            t = time.time()
            rc, o = sh("/venv/bin/python -m pytest -q -p no:cacheprovider perception_eval/test 2>&1 | tail -3", cwd=wt, env=env, timeout=1800)
            out["tests_with_mutant"] = o.strip().split("\n")[-1]
            out["tests_s"] = round(time.time() - t)
        # our checks
        res = {}
        if in_repo:
            rc, o = sh(f"git -C /repo apply {patch}")
            assert rc == 0, o
            try:
                for p in props:
                    rc, o = sh(f"./check {p} quick", cwd=ROOT, timeout=3600)
                    res[p] = {"rc": rc, "lines": [l for l in o.split("\n") if l.startswith(("VIOLATION", "KNOWN-FINDING", "[C"))]}
            finally:
                sh("git -C /repo checkout -- .")
        else:
            scratch = os.path.join(ROOT, "build", f"seed_repo_{os.getpid()}")
            os.makedirs(scratch, exist_ok=True)
            sh(f"rsync -a --exclude .git {wt}/perception_eval {scratch}/")
            try:
                env2 = dict(os.environ, VERIF_REPO=scratch)
                for p in props:
                    rc, o = sh(f"./check {p} quick", cwd=ROOT, env=env2, timeout=3600)
                    res[p] = {"rc": rc, "lines": [l for l in o.split("\n") if l.startswith(("VIOLATION", "KNOWN-FINDING", "[C"))]}
                    for l in res[p]["lines"]:
                        if l.startswith("VIOLATION") and "replay=" in l:
                            rp = l.split("replay=")[1].split()[0]
                            try:
                                d = json.load(open(rp))
                                res[p]["what"] = d.get("what") or ("no failing input; broken: " + "; ".join(str(b.get("error")) for b in d.get("broken", [])))
                            except Exception:
                                pass
            finally:
                shutil.rmtree(scratch, ignore_errors=True)
                sh(f"python3 {ROOT}/translator/py_to_coq.py /repo {ROOT}/coq/theories/Gen")  # restore Gen/ from /repo
        out["checks"] = res
        return out
    finally:
        sh(f"git -C /repo worktree remove --force {wt}")


if __name__ == "__main__":
    r = main()
    print(json.dumps(r, indent=1))
