#!/bin/bash
# tools/build.sh [target.vo ...]   -- serialised (flock) build of .vo targets relative to coq/theories,
# e.g. tools/build.sh Proofs/APProofs.vo Props/C04.vo ; with no argument: everything (-k).
cd "$(dirname "$0")/.."
mkdir -p build
exec 9> build/.lock
flock 9
/venv/bin/python - <<'PY'
import os, sys
sys.path.insert(0, os.getcwd())
os.environ.setdefault("VERIF_ROOT", os.getcwd())
from harness.lib import core
core.regenerate_gen()
core.ensure_makefile()
PY
cd coq
if [ $# -eq 0 ]; then
  timeout 3000 make -k -j16 2>&1 | grep -v "^ *$" | tail -40
else
  T=""
  for t in "$@"; do T="$T theories/$t"; done
  timeout 3000 make -j16 $T 2>&1 | grep -v "^ *$" | tail -60
fi
