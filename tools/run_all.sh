#!/bin/bash
# tools/run_all.sh [quick|thorough]  -- run every claimed check on /repo as it is; summary at the end.
cd "$(dirname "$0")/.."
TIER=${1:-quick}
IDS=$(python3 -c "import json; print(' '.join(c['property_id'] for c in json.load(open('MANIFEST.json'))['checks']))")
mkdir -p build/run_all
fail=0
for id in $IDS; do
  s=$(date +%s)
  ./check $id $TIER > build/run_all/$id.log 2>&1
  rc=$?
  e=$(date +%s)
  echo "$id rc=$rc $((e-s))s $(grep -E '^\[C' build/run_all/$id.log | tail -1)"
  grep -E "^(VIOLATION|KNOWN-FINDING)" build/run_all/$id.log
  [ $rc -ne 0 ] && fail=1
done
exit $fail
