#!/usr/bin/env python3
"""tools/reseed.py [--slots N]  -- regression of the checks against EVERY kept seeded change (seeded/<id>/patch.diff): the property's quick
check must still report each of them.  Results: build/reseed/<id>.json, summary printed.  Isolated copies (tools/mutcheck.py); /repo untouched."""
import json
import os
import sys
from concurrent.futures import ThreadPoolExecutor

ROOT = os.path.dirname(os.path.dirname(os.path.abspath(__file__)))
sys.path.insert(0, os.path.join(ROOT, "tools"))
import mutcheck  # noqa: E402


def main():
    n = int(next((a.split("=")[1] for a in sys.argv if a.startswith("--slots=")), "3"))
    ids = sorted(d for d in os.listdir(os.path.join(ROOT, "seeded")) if os.path.isfile(os.path.join(ROOT, "seeded", d, "patch.diff")))
    out = os.path.join(ROOT, "build", "reseed")
    os.makedirs(out, exist_ok=True)
    todo = [i for i in ids if not os.path.exists(os.path.join(out, i + ".json"))]
    for k in range(n):
        mutcheck.sync(f"/tmp/verif_iso_rs{k}")

    def work(args):
        k, chunk = args
        for i in chunk:
            pid = i.split("_")[0]
            r = mutcheck.run(f"rs{k}", os.path.join(ROOT, "seeded", i, "patch.diff"), [pid], jobs=4)
            json.dump(r, open(os.path.join(out, i + ".json"), "w"), indent=1)
            c = r.get("checks", {}).get(pid, {})
            print(i, "applies", r.get("applies"), "rc", c.get("rc"), (c.get("what") or "")[:110], flush=True)

    with ThreadPoolExecutor(n) as ex:
        list(ex.map(work, [(k, todo[k::n]) for k in range(n)]))
    res = {i: json.load(open(os.path.join(out, i + ".json"))) for i in ids if os.path.exists(os.path.join(out, i + ".json"))}
    caught = [i for i, r in res.items() if r.get("applies") and r["checks"].get(i.split("_")[0], {}).get("rc") == 1]
    na = [i for i, r in res.items() if not r.get("applies")]
    missed = [i for i in res if i not in caught and i not in na]
    print(f"{len(res)} seeded changes: {len(caught)} caught, {len(missed)} MISSED {missed}, {len(na)} no longer apply {na}")


if __name__ == "__main__":
    main()
